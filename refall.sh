#!/bin/bash
# refall.sh [tier] : apply every property-preserving change in refactors/ in turn and run the checks of the properties it must keep (must stay silent).
cd /verif
tier=${1:-quick}
for d in refactors/*/; do
  d=${d%/}
  props=$(python3 -c "import json;print(' '.join(json.load(open('$d/meta.json'))['properties_that_must_stay_true']))")
  ./seedtest.sh $d $tier $props 2>&1 | grep "^==\|does not apply\|uncommitted" | while read l; do echo "$d -> ${l:0:160}"; done
done
