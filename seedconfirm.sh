#!/bin/bash
# seedconfirm.sh <seeded/dir> <pkgdir e.g. models/routing>  : confirm in a scratch worktree that
#  (a) without the patch the demo passes, (b) with the patch the demo fails, (c) baseline tests pass with the patch.
set -u
d=$(realpath $1); pkg=$2
export GOFLAGS=-mod=mod GOPROXY=off GOSUMDB=off GOTOOLCHAIN=local
wt=/tmp/wt/confirm.$$
git -C /repo worktree add -q --detach $wt HEAD || exit 2
trap 'git -C /repo worktree remove --force '$wt EXIT
cd $wt
cp $d/demo_test.go $pkg/zz_demo_test.go
go test ${MODFLAG:-} -vet=off -count=1 -run TestSeedDemo ./$pkg/ > /tmp/wt/confirm.a.$$ 2>&1; a=$?
git apply $d/patch.diff || { echo "patch does not apply"; exit 2; }
go test ${MODFLAG:-} -vet=off -count=1 -run TestSeedDemo ./$pkg/ > /tmp/wt/confirm.b.$$ 2>&1; b=$?
rm $pkg/zz_demo_test.go
go build ./data/... ./models/... ./sim/... ./util/... ./conv/... ./io/json/... ./libopenwater/ ./cmd/ow-single/ > /tmp/wt/confirm.c.$$ 2>&1; c=$?
n=$(go test -vet=off -count=1 -v ./... 2>/dev/null | grep -c '^--- PASS')
f=$(go test -vet=off -count=1 -v ./... 2>/dev/null | grep -c '^--- FAIL')
echo "demo without patch: exit $a (want 0); demo with patch: exit $b (want !=0); build with patch: exit $c; baseline tests with patch: $n pass, $f fail (want 42/0)"
rm -f /tmp/wt/confirm.?.$$
[ $a -eq 0 ] && [ $b -ne 0 ] && [ $c -eq 0 ] && [ $n -eq 42 ] && [ $f -eq 0 ] && echo CONFIRMED || echo NOT-CONFIRMED
