#!/bin/bash
# seedtest.sh <seeded/dir> <tier> <ID> [ID...]  - apply a seeded defect to /repo, run checks, revert.
set -u
d=$1; tier=$2; shift 2
cd /verif
git -C /repo diff --quiet || { echo "/repo has uncommitted changes"; exit 2; }
git -C /repo apply "$(realpath $d/patch.diff)" || { echo "patch does not apply"; exit 2; }
trap 'git -C /repo checkout -- . ; git -C /repo clean -fdq' EXIT
for id in "$@"; do
  VERIF_NO_EVIDENCE=1 ./run.sh $id $tier > work/seed-$id.out 2>&1; rc=$?
  echo "== $id exit=$rc: $(grep -c '^VIOLATION' work/seed-$id.out) VIOLATION lines; $(tail -1 work/seed-$id.out)"
  grep -A1 '^VIOLATION' work/seed-$id.out | head -4
done
