/* drv.c - calls libopenwater.so:RunSingleModel on caller-owned malloc'ed buffers (ASan build).
 * usage: cdrv <casefile> <resultfile>
 * case file: model name, 12 integers, then the arrays as C99 hex floats. */
#include <stdio.h>
#include <stdlib.h>
#include <string.h>
#include "libopenwater.h"

static double *readarr(FILE *f, long n) {
	/* exactly n doubles: ASan red zones sit directly behind the last element */
	double *a = malloc((n > 0 ? n : 1) * sizeof(double));
	if (n <= 0) { free(a); a = malloc(1); return a; }
	for (long i = 0; i < n; i++) {
		if (fscanf(f, "%la", &a[i]) != 1) { fprintf(stderr, "short case file\n"); exit(3); }
	}
	return a;
}

int main(int argc, char **argv) {
	if (argc < 3) { fprintf(stderr, "usage: cdrv case result\n"); return 2; }
	FILE *f = fopen(argv[1], "r");
	if (!f) { perror("case"); return 2; }
	char model[256];
	long v[12];
	if (fscanf(f, "%255s", model) != 1) return 3;
	for (int i = 0; i < 12; i++) if (fscanf(f, "%ld", &v[i]) != 1) return 3;
	long nInputSets = v[0], nInputs = v[1], nTimesteps = v[2], nParameters = v[3], nParameterSets = v[4],
	     nCells = v[5], nStates = v[6], nOutputCells = v[7], nOutputs = v[8], nOutputTimesteps = v[9],
	     initStates = v[10], statesNull = v[11];
	double *inputs = readarr(f, nInputSets * nInputs * nTimesteps);
	double *params = readarr(f, nParameters * nParameterSets);
	double *states = NULL;
	if (!statesNull) states = readarr(f, nCells * nStates);
	long nout = nOutputCells * nOutputs * nOutputTimesteps;
	double *outputs = calloc(nout > 0 ? nout : 1, sizeof(double));
	fclose(f);

	RunSingleModel(model, inputs, (int)nInputSets, (int)nInputs, (int)nTimesteps,
	               params, (int)nParameters, (int)nParameterSets,
	               states, (int)nCells, (int)nStates,
	               outputs, (int)nOutputCells, (int)nOutputs, (int)nOutputTimesteps,
	               (GoUint8)(initStates != 0));

	FILE *o = fopen(argv[2], "w");
	if (!o) { perror("result"); return 2; }
	fprintf(o, "%ld\n", nout);
	for (long i = 0; i < nout; i++) fprintf(o, "%a\n", outputs[i]);
	long ns = statesNull ? 0 : nCells * nStates;
	fprintf(o, "%ld\n", ns);
	for (long i = 0; i < ns; i++) fprintf(o, "%a\n", states[i]);
	/* inputs and parameters back, to check that they were not modified */
	long ni = nInputSets * nInputs * nTimesteps, np = nParameters * nParameterSets;
	fprintf(o, "%ld\n", ni);
	for (long i = 0; i < ni; i++) fprintf(o, "%a\n", inputs[i]);
	fprintf(o, "%ld\n", np);
	for (long i = 0; i < np; i++) fprintf(o, "%a\n", params[i]);
	fprintf(o, "done\n");
	fclose(o);
	free(inputs); free(params); free(outputs); if (states) free(states);
	return 0;
}
