#!/bin/bash
# mutant.sh <name> <file> <python-expr old> <new> <ID...> : quick hand mutant (exact string replace), run checks, revert.
name=$1; file=$2; old=$3; new=$4; shift 4
cd /verif
git -C /repo diff --quiet || { echo "/repo dirty"; exit 2; }
python3 - "$file" "$old" "$new" <<'PY' || exit 2
import sys
p,old,new=sys.argv[1:4]
s=open(p).read()
if old not in s: print("pattern not found"); sys.exit(1)
open(p,'w').write(s.replace(old,new,1))
PY
trap 'git -C /repo checkout -- .' EXIT
for id in "$@"; do
  VERIF_NO_EVIDENCE=1 ./run.sh $id ${TIER:-quick} > work/mut-$id.out 2>&1; rc=$?
  echo "[$name] $id exit=$rc: $(grep -c '^VIOLATION' work/mut-$id.out) VIOLATION lines; kinds: $(grep -o 'kind=[a-z0-9-]*' work/mut-$id.out | sort | uniq -c | sort -rn | head -4 | tr '\n' ' ')"
done
