#!/bin/bash
# seedall.sh [tier] : apply every seeded defect in turn and run the check of the property it breaks.
cd /verif
tier=${1:-quick}
for d in seeded/*/; do
  d=${d%/}
  prop=$(python3 -c "import json;print(json.load(open('$d/meta.json'))['breaks_property'])")
  res=$(./seedtest.sh $d $tier $prop 2>&1 | head -1)
  echo "$d -> $res"
done
