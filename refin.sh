#!/bin/bash
# refin.sh <worktree id> <name> <tier> <IDs...> : import a sub-agent's property-preserving change and run the checks on it
wt=$1; name=$2; tier=$3; shift 3
cd /verif
mkdir -p refactors/$name && cp -r /tmp/wt/$wt/_seed/* refactors/$name/
./seedtest.sh refactors/$name $tier "$@" | grep "^==\|kind=" | sed 's/; C.. tier=[a-z]* seed=1: [0-9]* cases evaluated, [0-9]* distinct non-trivial classes,/ /; s/, [0-9]* known-finding id(s), [0-9]* inconclusive//' | cut -c1-400
