#!/bin/bash
# build.sh [variants...]  - (re)build the harness binaries from /repo's current working tree.
# variants: plain race asan owsim owsim-race owsingle libow
set -u
cd /verif
export GOFLAGS=-mod=mod GOPROXY=off GOSUMDB=off GOTOOLCHAIN=local CGO_ENABLED=1
mkdir -p bin build work
# alternative module file for building /repo commands against the HDF5 shim
{ cat /repo/go.mod; echo; echo 'replace gonum.org/v1/hdf5 => /verif/shim/hdf5'; } > build/repo.mod.$$ && mv build/repo.mod.$$ build/repo.mod
cp /repo/go.sum build/repo.sum
cp /repo/go.sum harness/go.sum
rc=0
b() { # name, dir, pkg, flags...
  local out=$1; shift; local dir=$1; shift; local pkg=$1; shift
  ( cd "$dir" && go build -tags verif "$@" -o /verif/bin/$out.tmp.$$ $pkg ) 2> work/build-$out.log
  if [ $? -ne 0 ]; then echo "build of $out failed:"; head -30 work/build-$out.log; rc=2; rm -f bin/$out.tmp.$$; else mv bin/$out.tmp.$$ bin/$out; fi
}
[ $# -eq 0 ] && set -- plain
for v in "$@"; do
  case $v in
    plain) b vcheck harness ./cmd/vcheck ;;
    race)  b vcheck-race harness ./cmd/vcheck -race ;;
    asan)  b vcheck-asan harness ./cmd/vcheck -asan ;;
    owsim) ( cd /repo && go build -modfile=/verif/build/repo.mod -tags verif -o /verif/bin/ow-sim.tmp.$$ ./cmd/ow-sim ) 2> work/build-owsim.log && mv bin/ow-sim.tmp.$$ bin/ow-sim || { echo "build of ow-sim failed"; head -30 work/build-owsim.log; rc=2; } ;;
    owsim-race) ( cd /repo && go build -race -modfile=/verif/build/repo.mod -tags verif -o /verif/bin/ow-sim-race.tmp.$$ ./cmd/ow-sim ) 2> work/build-owsim-race.log && mv bin/ow-sim-race.tmp.$$ bin/ow-sim-race || { echo "build of ow-sim-race failed"; head -30 work/build-owsim-race.log; rc=2; } ;;
    owsingle) ( cd /repo && go build -tags verif -o /verif/bin/ow-single.tmp.$$ ./cmd/ow-single ) 2> work/build-owsingle.log && mv bin/ow-single.tmp.$$ bin/ow-single || { echo "build of ow-single failed"; head -30 work/build-owsingle.log; rc=2; } ;;
    libow) ( cd /repo && go build -asan -buildmode=c-shared -o /verif/bin/libopenwater.so ./libopenwater ) 2> work/build-libow.log \
           && gcc -fsanitize=address -g -O1 -o bin/cdrv.tmp.$$ cdriver/drv.c -Ibin -Lbin -lopenwater -Wl,-rpath,/verif/bin 2>> work/build-libow.log \
           && mv bin/cdrv.tmp.$$ bin/cdrv || { echo "build of libopenwater.so / cdrv failed"; head -30 work/build-libow.log; rc=2; } ;;
    *) echo "unknown variant $v"; rc=2 ;;
  esac
done
exit $rc
