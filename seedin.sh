#!/bin/bash
# seedin.sh <worktree id> <seed name> <demo pkg dir | -> <IDs...> : import a sub-agent's seed, confirm it, run the checks (quick)
wt=$1; name=$2; pkg=$3; shift 3
cd /verif
mkdir -p seeded/$name && cp -r /tmp/wt/$wt/_seed/* seeded/$name/
if [ "$pkg" != "-" ]; then ./seedconfirm.sh seeded/$name $pkg | tail -1; fi
./seedtest.sh seeded/$name quick "$@" | grep "^==\|kind=" | sed 's/; C.. tier=quick seed=1: [0-9]* cases evaluated, [0-9]* distinct non-trivial classes,/ /; s/, [0-9]* known-finding id(s), [0-9]* inconclusive//' | cut -c1-330
