#!/usr/bin/env python3
"""Regenerates MANIFEST.json from the table below (keeps it schema-valid)."""
import json, subprocess
ALL=[f"C{i:02d}" for i in range(1,21)]
CHECKS={
 "C07":("exploration","differential + trace monitor of the real ow-sim binary (child process, HDF5 shim): random model graphs x output-selection flags x seeded delays at verif hook points; output datasets vs a sequential reference executor (bit-exact), shim op log (each generation block written exactly once), hook trace checked against the writer-protocol ordering rules (write once, in order, before exit; purge only after write and links; no re-initialisation after purge); stdout/stderr to files so that a parent exiting before its -writer child is visible",
        "Held on the executed graphs and observed interleavings (interleaving hashes and writer-behind cases counted in the evidence), except for the listed split-output finding.","HDF5 shim (trusted base); valid graph files; watchdog expiry = inconclusive","3 C07"),
 "C08":("exploration","reference-model monitors of the real io package on the HDF5 shim (round trips for 8 types x view kinds, numpy-style selections, block placement read back through the shim tree, Create idempotence), exhaustive enumeration of sliceSize/makeHyperslab on a box, lock-discipline monitor (every shim library call probes the package RWMutex via a verif hook), linearizability checking of concurrent WriteSlice/Write/Load histories with porcupine, and the same workload under the race detector with the shim's unsynchronised canary word",
        "Held on the executed cases; 2+ million probed library calls and thousands of linearizable histories in the thorough tier; int/uint element types are a listed finding.","HDF5 shim (trusted base) models the gonum binding and the HDF5 manual","3 C08"),
 "C17":("exploration","differential + robustness monitor: valid requests answered by the real ow-single binary (child process) and the in-process runner vs a direct one-cell Run (bit-exact, log contents), generated hostile request classes (random bytes, truncations, wrong types, unknown/empty model, missing/unequal/empty inputs, extra/duplicate keys, deep nesting) checked for exit status 0 and exactly one JSON document naming the problem; JsonSafeArray/JsonSafeValue on random arrays and views for every shiftDim",
        "Held on the executed requests except for the listed findings (table-parameter models; three omitted parameters whose spec default is outside the kernel's domain).","numeric values inside model domains; runner ignores supplied states","3 C17"),

 "C10":("exploration","invariant monitors on step-by-step chained runs (stores observed after every step) and whole runs of the five rainfall-runoff models: finiteness, sign, store bounds, component sums, cumulative no-creation inequality, exact GR4J closure for x2=0/PET=0",
        "Held on every observed step/run of the executed parameter sets and series.","initial storage upper bound; GR4J positive exchange recomputed by the oracle","3 C10"),
 "C12":("exploration","conservation monitor on step-by-step chained runs of the eight constituent models: per-step mass balance with every term in the model's documented units, flush permission only below MINIMUM_VOLUME, sign and finiteness monitors, branch coverage tags (required to be observed)",
        "Held on every observed step; branches hit are listed in the evidence.","1e-9 relative tolerance; decay-off StorageDissolvedDecay","3 C12"),
 "C13":("exploration","water-balance monitor per timestep from the outputs plus a sub-step trace monitor (verif hook verifSubstep): accepted sub-steps sum to the timestep, outflow/rainfall/evaporation accounting over accepted sub-steps only, release between the curves over the volumes traversed, release = demand when feasible, spill only above full supply",
        "Held on every observed timestep and accepted sub-step of the executed scenarios.","monotone tables gentle near empty; model's own release tolerances","3 C13"),
 "C15":("exploration","reference-model monitor: GR4J runoff at every step and final S, R, unit-hydrograph stores vs an independent implementation of the published equations (Perrin et al. 2003), x4 on a dense grid covering every UH length, zero and hot starts",
        "Held to 1e-9 relative on all executed cases; the reference agrees with the implementation for 1<=x4<2 on the unfixed tree, which cross-checks the transcription.","own transcription of the published equations","3 C15"),

 "C01":("exploration","lock-step reference-model monitor: generated histories of nested stepped slices and writes (Set/Set1-3/Apply/Apply1/ApplySlice/CopyFrom) on all 8 element types and both storage back-ends, compared with a shadow array model after every operation (whole caller-owned storage + every live view)",
        "Held on the executed histories; the shadow model defines slicing literally from the property text, so it shares no stride algebra with the implementation.","shadow model; in-bounds triples; C memory = mmap with guard pages / malloc with canaries","3 C01"),
 "C02":("exploration","lock-step reference-model monitor incl. Reshape/ReshapeFast/Unroll/Maximum/Minimum/bulk helpers, contiguity truth table in both directions, aliasing probes, explicit dest-kind x source-kind x op grid for the two-array operations (fast and general paths both required to be observed), exhaustive small-box enumeration of the integer helpers",
        "Held on the executed histories and the complete grid; integer helpers exhaustive on vectors of length<=4 with entries 0..5.","two-array sources disjoint from the destination or identical view; Argmax tie rule free","3 C02"),
 "C03":("exploration","lock-step differential monitor Go-backed vs C-backed array under the same history with guard pages before/after the caller buffer, canaries and AddressSanitizer (-asan build); C ABI monitor: RunSingleModel in an ASan-built libopenwater.so driven by an ASan C program on exactly-sized malloc buffers vs the Go API (bit-exact), all 41 models, three state modes",
        "Held on the executed histories / ABI cases; memory safety is observed by guard pages, ASan red zones and canaries, which miss far in-buffer strays that do not change a compared value.","guard pages/ASan/canaries; Go API as reference for the ABI","3 C03"),
 "C05":("exploration","Go race detector (-race build) over multi-cell Runs of all 41 models with shared parameter columns/input blocks and no monitor state; schedule-independence monitor with proxy arrays (request log + seeded delays) across GOMAXPROCS x delay seeds compared with the sequential cell-by-cell result; ow-sim built with -race on random model graphs",
        "Race-freedom holds for the accesses of the executed inputs (happens-before analysis covers all interleavings of those accesses); schedule independence held on the observed arrival orders (count in evidence).","race detector semantics; shim canary word stands for HDF5 non-thread-safety","3 C05"),
 "C09":("translation_validation","regenerate-and-compare: the project's own generators (genny, ow-specgen) are executed on a scratch copy of the working tree and all 47 generated files byte-compared both ways; independent OW-SPEC parser compared field-by-field with the live catalogue's Description()",
        "Exhaustive over the finite set of generated artefacts and spec blocks of the working tree.","genny version pinned by go.mod; own spec parser","3 C09"),
 "C16":("exploration","invariant monitors: per-timestep algebraic identities for 20 partition/conversion/generation models on generated parameters and series, branch coverage tags, two-run linearity relation f(a*x)=a*f(x)",
        "Held on every observed timestep of the executed cases.","tolerances 1e-12..1e-9; rating queries inside the table","3 C16"),
 "C18":("exploration","contract monitors around FindRoot (wrapped test functions log every evaluation point; bracket, value, better-end and halving-budget clauses) over 7 function families x guesses x derivative modes x budgets, and around Piecewise (knots, interior, outside, NaN; contiguous and strided table views)",
        "Held on the executed calls; the halving-budget clause is asserted only where a Lipschitz bound proves sufficiency.","Lipschitz bounds of the test families; 4-ulp knot tolerance","3 C18"),
 "C20":("exploration","ordering/finite/identity monitors on a dense (temperature x humidity x elevation) grid and random points incl. the 0 C branch point and RH=100%",
        "Held on every evaluated grid point; monotonicity is only observed between adjacent grid points.","grid 0.05 C x 0.5 % (thorough)","3 C20"),

 "C04":("exploration","bit-exact differential monitor: N-cell Run vs every cell run alone (own parameter column, state row, input block), snapshots of inputs/parameters/padding compared after Run",
        "Held on the (model, N, P, B, T, padding, init/hot) grid x seeded domains that was executed; nothing is claimed for shapes or values not run.","trusted: harness array builders, sampling domains (DESIGN Appendix A)","3 C04"),
 "C06":("exploration","differential monitor: uninterrupted Run vs chained segment Runs carrying the returned states (all stateful models, many split schedules, init and hot starts; segments on Go-backed arrays and on caller-owned C buffers with guard pages/canaries)",
        "Held on the executed (model, parameters, series, split schedule) cases within the stated tolerances, except for the two listed known findings.","tolerances of DESIGN 3/C06; sampling domains","3 C06"),
 "C11":("exploration","conservation / sign / constitutive-relation monitors evaluated at every timestep of generated StorageRouting runs (exit-path coverage from a verif hook), Muskingum steady-flow and event-volume monitors, Lag reference-model monitor over the (lag,length) grid incl. chained runs",
        "Held on every observed timestep; exit paths of the solver that were hit are listed in the evidence.","model's own definition of net evaporation; stable parameter region; tolerances of DESIGN 3/C11","3 C11"),
 "C14":("exploration","bit-exact differential monitor over paired executions: same object twice, fresh object after other runs and GOMAXPROCS changes, re-parameterised object, caller scribbling over old arrays; truncation and future-replacement pairs for causality",
        "Held on the executed histories and truncation points for all catalogued models.","arrays are not modified between ApplyParameters and Run","3 C14"),
 "C19":("exploration","reference-model monitor: every emitted (date, month, year, dayOfYear) compared with Go's time package over a 2x400-year run, every start date of a 400-year cycle (thorough) and special years",
        "Thorough tier enumerates all 146097 start dates of a Gregorian cycle x 400 steps; quick samples every 7th.","oracle = Go time package","3 C19"),
}
def entry(pid):
    lvl,tech,text,note,ref=CHECKS[pid]
    return {"property_id":pid,"quick_cmd":f"./run.sh {pid} quick","thorough_cmd":f"./run.sh {pid} thorough",
            "evidence_file":f"/verif/evidence/{pid}.json","replay_cmd_template":f"./run.sh {pid} replay {{path}}",
            "engine":"vcheck","level_claimed":{"category":lvl,"text":text,"design_ref":"DESIGN.md section "+ref},
            "level_note":note,"technique":"runtime monitoring: "+tech}
hooks=subprocess.run(["git","-C","/repo","log","--format=%h %s","--grep=^verif hook"],capture_output=True,text=True).stdout.strip().split("\n")
m={"version":1,
   "setup_cmd":"./setup.sh",
   "hooks":{"guard":"verif","enable":"go build -tags verif (all harness binaries are built with the tag; see build.sh)",
            "baseline_off_cmd":"cd /repo && GOFLAGS=-mod=mod GOPROXY=off GOSUMDB=off GOTOOLCHAIN=local go test -json -vet=off -count=1 -timeout 25m ./...",
            "source_commits":[h.split()[0] for h in hooks if h],"add_only":True},
   "engines":[{"name":"vcheck","path":"/verif/harness","serves_properties":sorted(CHECKS),"kind_free_text":"Go driver/worker harness: seeded case generation, worker processes built from /repo with -tags verif (plain/-race/-asan), oracles = reference models, invariant monitors, trace/history checkers"}],
   "checks":[entry(p) for p in sorted(CHECKS)],
   "not_applicable":[{"property_id":p,"reason":"check not built yet (work in progress; see DESIGN.md)"} for p in ALL if p not in CHECKS],
   "notes":"All checks: ./run.sh <ID> <quick|thorough>; replay: ./run.sh <ID> replay <file>. VERIF_SEED selects the PRNG seed. Known findings: known_findings.json."}
json.dump(m,open("/verif/MANIFEST.json","w"),indent=1)
print("checks:",len(m["checks"]),"n/a:",len(m["not_applicable"]))
