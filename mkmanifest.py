#!/usr/bin/env python3
"""Regenerates MANIFEST.json from the table below (keeps it schema-valid)."""
import json, subprocess
ALL=[f"C{i:02d}" for i in range(1,21)]
CHECKS={
 "C04":("exploration","bit-exact differential monitor: N-cell Run vs every cell run alone (own parameter column, state row, input block), snapshots of inputs/parameters/padding compared after Run",
        "Held on the (model, N, P, B, T, padding, init/hot) grid x seeded domains that was executed; nothing is claimed for shapes or values not run.","trusted: harness array builders, sampling domains (DESIGN Appendix A)","3 C04"),
 "C06":("exploration","differential monitor: uninterrupted Run vs chained segment Runs carrying the returned states (all stateful models, many split schedules, init and hot starts)",
        "Held on the executed (model, parameters, series, split schedule) cases within the stated tolerances, except for the two listed known findings.","tolerances of DESIGN 3/C06; sampling domains","3 C06"),
 "C11":("exploration","conservation / sign / constitutive-relation monitors evaluated at every timestep of generated StorageRouting runs (exit-path coverage from a verif hook), Muskingum steady-flow and event-volume monitors, Lag reference-model monitor over the (lag,length) grid incl. chained runs",
        "Held on every observed timestep; exit paths of the solver that were hit are listed in the evidence.","model's own definition of net evaporation; stable parameter region; tolerances of DESIGN 3/C11","3 C11"),
 "C14":("exploration","bit-exact differential monitor over paired executions: same object twice, fresh object after other runs and GOMAXPROCS changes, re-parameterised object, caller scribbling over old arrays; truncation and future-replacement pairs for causality",
        "Held on the executed histories and truncation points for all catalogued models.","arrays are not modified between ApplyParameters and Run","3 C14"),
 "C19":("exploration","reference-model monitor: every emitted (date, month, year, dayOfYear) compared with Go's time package over a 2x400-year run, every start date of a 400-year cycle (thorough) and special years",
        "Thorough tier enumerates all 146097 start dates of a Gregorian cycle x 400 steps; quick samples every 7th.","oracle = Go time package","3 C19"),
}
def entry(pid):
    lvl,tech,text,note,ref=CHECKS[pid]
    return {"property_id":pid,"quick_cmd":f"./run.sh {pid} quick","thorough_cmd":f"./run.sh {pid} thorough",
            "evidence_file":f"/verif/evidence/{pid}.json","replay_cmd_template":f"./run.sh {pid} replay {{path}}",
            "engine":"vcheck","level_claimed":{"category":lvl,"text":text,"design_ref":"DESIGN.md section "+ref},
            "level_note":note,"technique":"runtime monitoring: "+tech}
hooks=subprocess.run(["git","-C","/repo","log","--format=%h %s","--grep=^verif hook"],capture_output=True,text=True).stdout.strip().split("\n")
m={"version":1,
   "setup_cmd":"./setup.sh",
   "hooks":{"guard":"verif","enable":"go build -tags verif (all harness binaries are built with the tag; see build.sh)",
            "baseline_off_cmd":"cd /repo && GOFLAGS=-mod=mod GOPROXY=off GOSUMDB=off GOTOOLCHAIN=local go test -json -vet=off -count=1 -timeout 25m ./...",
            "source_commits":[h.split()[0] for h in hooks if h],"add_only":True},
   "engines":[{"name":"vcheck","path":"/verif/harness","serves_properties":sorted(CHECKS),"kind_free_text":"Go driver/worker harness: seeded case generation, worker processes built from /repo with -tags verif (plain/-race/-asan), oracles = reference models, invariant monitors, trace/history checkers"}],
   "checks":[entry(p) for p in sorted(CHECKS)],
   "not_applicable":[{"property_id":p,"reason":"check not built yet (work in progress; see DESIGN.md)"} for p in ALL if p not in CHECKS],
   "notes":"All checks: ./run.sh <ID> <quick|thorough>; replay: ./run.sh <ID> replay <file>. VERIF_SEED selects the PRNG seed. Known findings: known_findings.json."}
json.dump(m,open("/verif/MANIFEST.json","w"),indent=1)
print("checks:",len(m["checks"]),"n/a:",len(m["not_applicable"]))
