#!/usr/bin/env python3
import json,glob,os
print("| seeded change | breaks | needs, in order to manifest | caught by | how it went |")
print("|---|---|---|---|---|")
for d in sorted(glob.glob('/verif/seeded/*/')):
    m=json.load(open(d+'meta.json'))
    name=os.path.basename(d.rstrip('/'))
    ran=m['what_was_run']
    missed='first MISSED' in ran or 'first missed' in ran
    how=ran.split('->',1)[1].strip() if '->' in ran else ran
    print("| `%s` | %s | %s | %s | %s%s |"%(name,m['breaks_property'],m['needs_to_manifest'].replace('|','/'),', '.join(m['detected_by']),("**missed at first** — " if missed else ""),how.replace('|','/')))
