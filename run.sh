#!/bin/bash
# run.sh <ID> <quick|thorough>        run the check of one property
# run.sh <ID> replay <path>           re-execute one recorded case
set -u
cd /verif
export GOFLAGS=-mod=mod GOPROXY=off GOSUMDB=off GOTOOLCHAIN=local CGO_ENABLED=1
ID=${1:?property id}; MODE=${2:-quick}
./build.sh plain > work/build-$ID.out 2>&1 || { cat work/build-$ID.out; echo "HARNESS-ERROR: harness does not build against /repo"; exit 2; }
extra=$(bin/vcheck variants -prop "$ID" | grep -v '^plain$' | tr '\n' ' ')
extra="$extra $(bin/vcheck needs -prop "$ID" 2>/dev/null | tr '\n' ' ')"
if [ -n "${extra// /}" ]; then
  ./build.sh $extra > work/build-$ID.out 2>&1 || { cat work/build-$ID.out; echo "HARNESS-ERROR: instrumented build failed"; exit 2; }
fi
if [ "$MODE" = replay ]; then
  exec bin/vcheck replay -file "${3:?replay file}"
fi
exec bin/vcheck run -prop "$ID" -tier "$MODE"
