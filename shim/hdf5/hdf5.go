// Package hdf5 is a pure-Go work-alike of the part of gonum.org/v1/hdf5 that
// openwater-core's io package and ow-sim use.  It exists because libhdf5 is not
// installed in the verification sandbox; it is substituted through a `replace`
// directive and is part of the trusted base of properties C07 and C08.
//
// Semantics follow the HDF5 reference manual and the gonum binding's source:
//   - a file is a tree of groups and datasets; a dataset has fixed dims, an element
//     size and class, and zero-filled raw data (the library default fill value);
//   - Read/Write use the dataset's FILE datatype as the memory datatype (exactly
//     what gonum's Dataset.Read/Write do), i.e. raw bytes are copied, N elements
//     of the file's element size each;
//   - reflect.Int / reflect.Uint map to H5T_NATIVE_INT / H5T_NATIVE_UINT, which
//     are 4-byte C types on linux/amd64 (gonum h5t_types.go / h5t_shim.go);
//   - a hyperslab is `count` blocks of `block` elements every `stride` elements
//     from `offset` in each dimension, must lie inside the extent, and is visited
//     in row-major order; memory and file selections must have the same number
//     of elements.
//
// Verification additions: Hook (called on entry of every library call), an
// optional op log (OW_SHIM_OPLOG), seeded in-call sleeps (OW_SHIM_DELAYS) and an
// unsynchronised canary word that makes "a mutating library call overlapping any
// other call without ordering" visible to the Go race detector.
package hdf5

import (
	"bytes"
	"encoding/gob"
	"errors"
	"fmt"
	"os"
	"path/filepath"
	"reflect"
	"sort"
	"strconv"
	"strings"
	"sync"
	"sync/atomic"
	"time"
	"unsafe"
)

// ---------------------------------------------------------------------------
// constants (names as in gonum.org/v1/hdf5)

const (
	F_ACC_RDONLY  int = 0x0000
	F_ACC_RDWR    int = 0x0001
	F_ACC_TRUNC   int = 0x0002
	F_ACC_EXCL    int = 0x0004
	F_ACC_DEBUG   int = 0x0008
	F_ACC_CREAT   int = 0x0010
	F_ACC_DEFAULT int = 0xffff
)

type GType int

const (
	H5G_UNKNOWN GType = -1
	H5G_GROUP   GType = 0
	H5G_DATASET GType = 1
	H5G_TYPE    GType = 2
	H5G_LINK    GType = 3
	H5G_UDLINK  GType = 4
)

type PropType int

const (
	P_DATASET_CREATE PropType = 1
	P_DATASET_ACCESS PropType = 2
)

const DefaultCompression = -1

type TypeClass int

const (
	T_NO_CLASS TypeClass = -1
	T_INTEGER  TypeClass = 0
	T_FLOAT    TypeClass = 1
	T_STRING   TypeClass = 3
)

// ---------------------------------------------------------------------------
// verification instrumentation

// Hook, when set, is called on entry of every library call with the call name
// and whether the call mutates library/file state.
var Hook func(call string, mutating bool)

// canary is deliberately unsynchronised: mutating calls store, every call loads.
var canary uint64

var (
	delaySeed  uint64
	delayMaxUs uint64
	delayOn    bool
	oplogPath  string
	oplogMu    sync.Mutex
	callCount  uint64
)

func init() {
	if v := os.Getenv("OW_SHIM_DELAYS"); v != "" {
		parts := strings.Split(v, ":")
		if len(parts) == 2 {
			s, _ := strconv.ParseUint(parts[0], 10, 64)
			m, _ := strconv.ParseUint(parts[1], 10, 64)
			SetDelays(s, m)
		}
	}
	oplogPath = os.Getenv("OW_SHIM_OPLOG")
}

// SetDelays enables seeded sleeps of up to maxMicros on entry of library calls.
func SetDelays(seed, maxMicros uint64) {
	delaySeed = seed
	delayMaxUs = maxMicros
	delayOn = maxMicros > 0
}

// SetOpLog sets (or clears with "") the op log path.
func SetOpLog(path string) { oplogPath = path }

// CallCount returns the number of library calls made so far in this process.
func CallCount() uint64 { return atomic.LoadUint64(&callCount) }

func mix(x uint64) uint64 {
	x += 0x9e3779b97f4a7c15
	x = (x ^ (x >> 30)) * 0xbf58476d1ce4e5b9
	x = (x ^ (x >> 27)) * 0x94d049bb133111eb
	return x ^ (x >> 31)
}

func enter(call string, mutating bool) {
	n := atomic.AddUint64(&callCount, 1)
	if Hook != nil {
		Hook(call, mutating)
	}
	if mutating {
		canary = canary + 1 // plain store
	} else {
		_ = canary // plain load
	}
	if delayOn {
		r := mix(delaySeed ^ (n * 0x9e3779b97f4a7c15))
		if r%3 != 0 {
			time.Sleep(time.Duration(r>>8%delayMaxUs) * time.Microsecond)
		}
	}
}

func oplog(format string, a ...interface{}) {
	if oplogPath == "" {
		return
	}
	oplogMu.Lock()
	defer oplogMu.Unlock()
	f, err := os.OpenFile(oplogPath, os.O_APPEND|os.O_CREATE|os.O_WRONLY, 0644)
	if err != nil {
		return
	}
	fmt.Fprintf(f, "%d "+format+"\n", append([]interface{}{os.Getpid()}, a...)...)
	f.Close()
}

// ---------------------------------------------------------------------------
// on-disk tree

// Node is a group or a dataset.  Exported (with Tree) so that the verification
// harness can build input files and inspect output files without going through
// the code under test.
type Node struct {
	Name     string
	IsGroup  bool
	Children []*Node
	Dims     []uint64
	Class    int // TypeClass
	Signed   bool
	ElemSize int
	Data     []byte
}

type Tree struct {
	Root *Node
}

func NewTree() *Tree { return &Tree{Root: &Node{Name: "/", IsGroup: true}} }

func LoadTree(path string) (*Tree, error) {
	b, err := os.ReadFile(path)
	if err != nil {
		return nil, err
	}
	if !bytes.HasPrefix(b, []byte("OWSHIMH5")) {
		return nil, errors.New("not a (shim) HDF5 file")
	}
	var t Tree
	if err := gob.NewDecoder(bytes.NewReader(b[8:])).Decode(&t); err != nil {
		return nil, err
	}
	return &t, nil
}

var saveCounter uint64

func (t *Tree) Save(path string) error {
	var buf bytes.Buffer
	buf.WriteString("OWSHIMH5")
	if err := gob.NewEncoder(&buf).Encode(t); err != nil {
		return err
	}
	tmp := fmt.Sprintf("%s.tmp.%d.%d", path, os.Getpid(), atomic.AddUint64(&saveCounter, 1))
	if err := os.WriteFile(tmp, buf.Bytes(), 0644); err != nil {
		return err
	}
	return os.Rename(tmp, path)
}

func (n *Node) child(name string) *Node {
	for _, c := range n.Children {
		if c.Name == name {
			return c
		}
	}
	return nil
}

func (n *Node) addChild(c *Node) {
	n.Children = append(n.Children, c)
	sort.Slice(n.Children, func(i, j int) bool { return n.Children[i].Name < n.Children[j].Name })
}

func splitPath(p string) []string {
	out := []string{}
	for _, c := range strings.Split(p, "/") {
		if c != "" && c != "." {
			out = append(out, c)
		}
	}
	return out
}

// Lookup resolves a path relative to n (absolute paths are resolved by the caller
// passing the root).
func (n *Node) Lookup(path string) *Node {
	cur := n
	for _, c := range splitPath(path) {
		if cur == nil || !cur.IsGroup {
			return nil
		}
		cur = cur.child(c)
	}
	return cur
}

// MkGroups creates (or finds) the chain of groups.
func (n *Node) MkGroups(path string) *Node {
	cur := n
	for _, c := range splitPath(path) {
		nx := cur.child(c)
		if nx == nil {
			nx = &Node{Name: c, IsGroup: true}
			cur.addChild(nx)
		}
		cur = nx
	}
	return cur
}

// PutDataset creates/replaces a dataset at path (groups are created as needed).
func (t *Tree) PutDataset(path string, dims []int, class TypeClass, signed bool, elemSize int, data []byte) *Node {
	comps := splitPath(path)
	g := t.Root.MkGroups(strings.Join(comps[:len(comps)-1], "/"))
	name := comps[len(comps)-1]
	for i, c := range g.Children {
		if c.Name == name {
			g.Children = append(g.Children[:i], g.Children[i+1:]...)
			break
		}
	}
	ud := make([]uint64, len(dims))
	n := 1
	for i, d := range dims {
		ud[i] = uint64(d)
		n *= d
	}
	buf := make([]byte, n*elemSize)
	copy(buf, data)
	nd := &Node{Name: name, Dims: ud, Class: int(class), Signed: signed, ElemSize: elemSize, Data: buf}
	g.addChild(nd)
	return nd
}

func (n *Node) NumElems() int {
	r := 1
	for _, d := range n.Dims {
		r *= int(d)
	}
	return r
}

// ---------------------------------------------------------------------------
// identifiers

type Identifier struct {
	closed bool
}

type CommonFG struct {
	Identifier
	file *File
	node *Node
	path string
}

func (g *CommonFG) absPath(name string) string {
	if strings.HasPrefix(name, "/") {
		return "/" + strings.Join(splitPath(name), "/")
	}
	return "/" + strings.Join(append(splitPath(g.path), splitPath(name)...), "/")
}

type File struct {
	CommonFG
	path     string
	writable bool
	tree     *Tree
}

type Group struct {
	CommonFG
}

type Dataset struct {
	Identifier
	file *File
	node *Node
	path string
}

type Dataspace struct {
	Identifier
	dims []uint
	// selection: nil = all
	sel *hyperslab
}

type hyperslab struct {
	offset, stride, count, block []uint
}

type Datatype struct {
	Identifier
	class  TypeClass
	size   uint
	signed bool
}

type PropList struct {
	Identifier
	deflate bool
	chunked bool
}

func DisplayErrors(on bool) error { return nil }

// ---------------------------------------------------------------------------
// files

func CreateFile(name string, flags int) (*File, error) {
	enter("CreateFile", true)
	if flags&F_ACC_EXCL != 0 {
		if _, err := os.Stat(name); err == nil {
			return nil, errors.New("error creating hdf5 file: exists")
		}
	}
	if dir := filepath.Dir(name); dir != "" {
		if st, err := os.Stat(dir); err != nil || !st.IsDir() {
			return nil, errors.New("error creating hdf5 file: no such directory")
		}
	}
	f := &File{path: name, writable: true, tree: NewTree()}
	f.file = f
	f.node = f.tree.Root
	if err := f.tree.Save(name); err != nil {
		return nil, err
	}
	oplog("createfile %s", name)
	return f, nil
}

func OpenFile(name string, flags int) (*File, error) {
	writable := flags&F_ACC_RDWR != 0
	enter("OpenFile", writable)
	t, err := LoadTree(name)
	if err != nil {
		return nil, fmt.Errorf("error opening hdf5 file: %v", err)
	}
	f := &File{path: name, writable: writable, tree: t}
	f.file = f
	f.node = t.Root
	oplog("openfile %s rw=%v", name, writable)
	return f, nil
}

func (f *File) Close() error {
	enter("File.Close", f.writable)
	if f.closed {
		return errors.New("file already closed")
	}
	f.closed = true
	if f.writable {
		oplog("closefile %s", f.path)
		return f.tree.Save(f.path)
	}
	return nil
}

func (f *File) FileName() string { return f.path }

// ---------------------------------------------------------------------------
// groups

func (g *CommonFG) resolveBase(name string) *Node {
	if strings.HasPrefix(name, "/") {
		return g.file.tree.Root
	}
	return g.node
}

func (g *CommonFG) OpenGroup(name string) (*Group, error) {
	enter("OpenGroup", false)
	n := g.resolveBase(name).Lookup(name)
	if n == nil || !n.IsGroup {
		return nil, fmt.Errorf("hdf5: unable to open group %q", name)
	}
	r := &Group{}
	r.file = g.file
	r.node = n
	r.path = g.absPath(name)
	return r, nil
}

func (g *CommonFG) CreateGroup(name string) (*Group, error) {
	enter("CreateGroup", true)
	if !g.file.writable {
		return nil, errors.New("hdf5: file not writable")
	}
	comps := splitPath(name)
	if len(comps) == 0 {
		return nil, errors.New("hdf5: empty group name")
	}
	parent := g.resolveBase(name).Lookup(strings.Join(comps[:len(comps)-1], "/"))
	if parent == nil || !parent.IsGroup {
		return nil, errors.New("hdf5: parent group does not exist")
	}
	if parent.child(comps[len(comps)-1]) != nil {
		return nil, errors.New("hdf5: name already exists")
	}
	n := &Node{Name: comps[len(comps)-1], IsGroup: true}
	parent.addChild(n)
	r := &Group{}
	r.file = g.file
	r.node = n
	r.path = g.absPath(name)
	return r, nil
}

func (g *Group) Close() error {
	enter("Group.Close", false)
	g.closed = true
	return nil
}

func (g *CommonFG) NumObjects() (uint, error) {
	enter("NumObjects", false)
	return uint(len(g.node.Children)), nil
}

func (g *CommonFG) ObjectNameByIndex(idx uint) (string, error) {
	enter("ObjectNameByIndex", false)
	if int(idx) >= len(g.node.Children) {
		return "", errors.New("hdf5: index out of range")
	}
	return g.node.Children[idx].Name, nil
}

func (g *CommonFG) ObjectTypeByIndex(idx uint) (GType, error) {
	enter("ObjectTypeByIndex", false)
	if int(idx) >= len(g.node.Children) {
		return H5G_UNKNOWN, errors.New("hdf5: index out of range")
	}
	if g.node.Children[idx].IsGroup {
		return H5G_GROUP, nil
	}
	return H5G_DATASET, nil
}

func (g *CommonFG) LinkExists(name string) bool {
	enter("LinkExists", false)
	return g.resolveBase(name).Lookup(name) != nil
}

// ---------------------------------------------------------------------------
// datasets

func (g *CommonFG) OpenDataset(name string) (*Dataset, error) {
	enter("OpenDataset", false)
	n := g.resolveBase(name).Lookup(name)
	if n == nil || n.IsGroup {
		return nil, fmt.Errorf("hdf5: unable to open dataset %q", name)
	}
	return &Dataset{file: g.file, node: n, path: g.absPath(name)}, nil
}

func (g *CommonFG) CreateDataset(name string, dtype *Datatype, dspace *Dataspace) (*Dataset, error) {
	return g.createDataset(name, dtype, dspace, nil)
}

func (g *CommonFG) CreateDatasetWith(name string, dtype *Datatype, dspace *Dataspace, dcpl *PropList) (*Dataset, error) {
	return g.createDataset(name, dtype, dspace, dcpl)
}

func (g *CommonFG) createDataset(name string, dtype *Datatype, dspace *Dataspace, dcpl *PropList) (*Dataset, error) {
	enter("CreateDataset", true)
	if !g.file.writable {
		return nil, errors.New("hdf5: file not writable")
	}
	if dtype == nil || dspace == nil {
		return nil, errors.New("hdf5: nil datatype or dataspace")
	}
	if dcpl != nil && dcpl.deflate && !dcpl.chunked {
		// the real library requires a chunked layout for filters
		return nil, errors.New("hdf5: filters require a chunked layout")
	}
	comps := splitPath(name)
	if len(comps) == 0 {
		return nil, errors.New("hdf5: empty dataset name")
	}
	parent := g.resolveBase(name).Lookup(strings.Join(comps[:len(comps)-1], "/"))
	if parent == nil || !parent.IsGroup {
		return nil, errors.New("hdf5: parent group does not exist")
	}
	if parent.child(comps[len(comps)-1]) != nil {
		return nil, errors.New("hdf5: name already exists")
	}
	n := &Node{Name: comps[len(comps)-1], Class: int(dtype.class), Signed: dtype.signed, ElemSize: int(dtype.size)}
	n.Dims = make([]uint64, len(dspace.dims))
	total := 1
	for i, d := range dspace.dims {
		n.Dims[i] = uint64(d)
		total *= int(d)
	}
	n.Data = make([]byte, total*n.ElemSize) // zero fill: library default
	parent.addChild(n)
	oplog("createdataset %s %s dims=%v", g.file.path, g.absPath(name), dspace.dims)
	return &Dataset{file: g.file, node: n, path: g.absPath(name)}, nil
}

func (s *Dataset) Close() error {
	enter("Dataset.Close", false)
	s.closed = true
	return nil
}

func (s *Dataset) Space() *Dataspace {
	enter("Dataset.Space", false)
	d := make([]uint, len(s.node.Dims))
	for i, v := range s.node.Dims {
		d[i] = uint(v)
	}
	return &Dataspace{dims: d}
}

func (s *Dataset) Datatype() (*Datatype, error) {
	enter("Dataset.Datatype", false)
	return &Datatype{class: TypeClass(s.node.Class), size: uint(s.node.ElemSize), signed: s.node.Signed}, nil
}

// bufferOf returns the address and byte length of the memory behind data, in the
// way gonum's ReadSubset/WriteSubset find it.
func bufferOf(data interface{}) (unsafe.Pointer, int, error) {
	v := reflect.Indirect(reflect.ValueOf(data))
	switch v.Kind() {
	case reflect.Slice:
		if v.Len() == 0 {
			return nil, 0, nil
		}
		return unsafe.Pointer(v.Index(0).UnsafeAddr()), v.Len() * int(v.Type().Elem().Size()), nil
	case reflect.Array:
		return unsafe.Pointer(v.UnsafeAddr()), int(v.Type().Size()), nil
	default:
		if !v.CanAddr() {
			return nil, 0, errors.New("hdf5 shim: unaddressable buffer")
		}
		return unsafe.Pointer(v.UnsafeAddr()), int(v.Type().Size()), nil
	}
}

func (sp *Dataspace) selectionOffsets() ([]int, error) {
	nd := len(sp.dims)
	if sp.sel == nil {
		n := 1
		for _, d := range sp.dims {
			n *= int(d)
		}
		res := make([]int, n)
		for i := range res {
			res[i] = i
		}
		return res, nil
	}
	h := sp.sel
	// per-dimension coordinate lists
	coords := make([][]int, nd)
	for d := 0; d < nd; d++ {
		st, bl := uint(1), uint(1)
		if h.stride != nil {
			st = h.stride[d]
		}
		if h.block != nil {
			bl = h.block[d]
		}
		for c := uint(0); c < h.count[d]; c++ {
			for b := uint(0); b < bl; b++ {
				coords[d] = append(coords[d], int(h.offset[d]+c*st+b))
			}
		}
	}
	strides := make([]int, nd)
	acc := 1
	for d := nd - 1; d >= 0; d-- {
		strides[d] = acc
		acc *= int(sp.dims[d])
	}
	total := 1
	for d := 0; d < nd; d++ {
		total *= len(coords[d])
	}
	res := make([]int, 0, total)
	if total == 0 {
		return res, nil
	}
	idx := make([]int, nd)
	for {
		off := 0
		for d := 0; d < nd; d++ {
			off += coords[d][idx[d]] * strides[d]
		}
		res = append(res, off)
		d := nd - 1
		for d >= 0 {
			idx[d]++
			if idx[d] < len(coords[d]) {
				break
			}
			idx[d] = 0
			d--
		}
		if d < 0 {
			break
		}
	}
	return res, nil
}

func (s *Dataset) transfer(write bool, data interface{}, memspace, filespace *Dataspace) error {
	addr, blen, err := bufferOf(data)
	if err != nil {
		return err
	}
	var fileOffs []int
	if filespace != nil {
		// the file space must describe this dataset
		if len(filespace.dims) != len(s.node.Dims) {
			return errors.New("hdf5: file dataspace rank mismatch")
		}
		for i := range filespace.dims {
			if uint64(filespace.dims[i]) != s.node.Dims[i] {
				return errors.New("hdf5: file dataspace extent mismatch")
			}
		}
		fileOffs, err = filespace.selectionOffsets()
	} else {
		fileOffs, err = (&Dataspace{dims: toUint(s.node.Dims)}).selectionOffsets()
	}
	if err != nil {
		return err
	}
	var memOffs []int
	if memspace != nil {
		memOffs, err = memspace.selectionOffsets()
		if err != nil {
			return err
		}
		if len(memOffs) != len(fileOffs) {
			return errors.New("hdf5: src and dest dataspaces have different number of elements selected")
		}
	} else {
		memOffs = make([]int, len(fileOffs))
		for i := range memOffs {
			memOffs[i] = i
		}
	}
	es := s.node.ElemSize
	maxMem := -1
	for _, o := range memOffs {
		if o > maxMem {
			maxMem = o
		}
	}
	if (maxMem+1)*es > blen {
		// the real library would run off the end of the buffer; refuse instead.
		return fmt.Errorf("hdf5 shim: memory buffer too small (%d bytes, need %d)", blen, (maxMem+1)*es)
	}
	if len(fileOffs) == 0 {
		return nil
	}
	mem := unsafe.Slice((*byte)(addr), blen)
	for i, fo := range fileOffs {
		mo := memOffs[i]
		if write {
			copy(s.node.Data[fo*es:(fo+1)*es], mem[mo*es:(mo+1)*es])
		} else {
			copy(mem[mo*es:(mo+1)*es], s.node.Data[fo*es:(fo+1)*es])
		}
	}
	return nil
}

func toUint(d []uint64) []uint {
	r := make([]uint, len(d))
	for i, v := range d {
		r[i] = uint(v)
	}
	return r
}

func (s *Dataset) ReadSubset(data interface{}, memspace, filespace *Dataspace) error {
	enter("Dataset.Read", false)
	if filespace != nil && filespace.sel != nil {
		oplog("read %s %s off=%v stride=%v count=%v block=%v", s.file.path, s.path, filespace.sel.offset, filespace.sel.stride, filespace.sel.count, filespace.sel.block)
	} else {
		oplog("read %s %s all", s.file.path, s.path)
	}
	return s.transfer(false, data, memspace, filespace)
}

func (s *Dataset) Read(data interface{}) error {
	return s.ReadSubset(data, nil, nil)
}

func (s *Dataset) WriteSubset(data interface{}, memspace, filespace *Dataspace) error {
	enter("Dataset.Write", true)
	if !s.file.writable {
		return errors.New("hdf5: file not writable")
	}
	if filespace != nil && filespace.sel != nil {
		oplog("write %s %s off=%v stride=%v count=%v block=%v", s.file.path, s.path, filespace.sel.offset, filespace.sel.stride, filespace.sel.count, filespace.sel.block)
	} else {
		oplog("write %s %s all", s.file.path, s.path)
	}
	return s.transfer(true, data, memspace, filespace)
}

func (s *Dataset) Write(data interface{}) error {
	return s.WriteSubset(data, nil, nil)
}

// ---------------------------------------------------------------------------
// dataspaces

func CreateSimpleDataspace(dims, maxDims []uint) (*Dataspace, error) {
	enter("CreateSimpleDataspace", false)
	if dims != nil && maxDims != nil && len(dims) != len(maxDims) {
		return nil, errors.New("lengths of dims and maxDims do not match")
	}
	if dims == nil {
		return nil, errors.New("failed to create dataspace")
	}
	if maxDims != nil {
		for i := range dims {
			if maxDims[i] < dims[i] {
				return nil, errors.New("failed to create dataspace")
			}
		}
	}
	d := make([]uint, len(dims))
	copy(d, dims)
	return &Dataspace{dims: d}, nil
}

func (s *Dataspace) Close() error {
	enter("Dataspace.Close", false)
	s.closed = true
	return nil
}

func (s *Dataspace) SimpleExtentNDims() int { return len(s.dims) }

func (s *Dataspace) SimpleExtentDims() (dims, maxdims []uint, err error) {
	enter("SimpleExtentDims", false)
	dims = make([]uint, len(s.dims))
	maxdims = make([]uint, len(s.dims))
	copy(dims, s.dims)
	copy(maxdims, s.dims)
	return
}

func (s *Dataspace) SelectHyperslab(offset, stride, count, block []uint) error {
	enter("SelectHyperslab", false)
	rank := len(offset)
	if rank == 0 {
		s.sel = nil
		return nil
	}
	if rank != len(s.dims) {
		return errors.New("size of offset does not match extent")
	}
	if len(count) != rank || (stride != nil && len(stride) != rank) || (block != nil && len(block) != rank) {
		return errors.New("hdf5 shim: hyperslab argument rank mismatch")
	}
	h := &hyperslab{offset: cp(offset), count: cp(count)}
	if stride != nil {
		h.stride = cp(stride)
	}
	if block != nil {
		h.block = cp(block)
	}
	empty := false
	for d := 0; d < rank; d++ {
		st, bl := uint(1), uint(1)
		if stride != nil {
			st = stride[d]
		}
		if block != nil {
			bl = block[d]
		}
		if st == 0 {
			return errors.New("hdf5: invalid stride==0 value")
		}
		if count[d] == 0 || bl == 0 {
			empty = true
			continue
		}
		if count[d] > 1 && st < bl {
			return errors.New("hdf5: hyperslab blocks overlap")
		}
		last := offset[d] + (count[d]-1)*st + bl - 1
		if last >= s.dims[d] {
			return errors.New("hdf5: selection+offset not within extent")
		}
	}
	if empty {
		// select none
		z := make([]uint, rank)
		h = &hyperslab{offset: cp(offset), count: z, stride: h.stride, block: h.block}
	}
	s.sel = h
	return nil
}

func cp(a []uint) []uint {
	r := make([]uint, len(a))
	copy(r, a)
	return r
}

// ---------------------------------------------------------------------------
// datatypes and property lists

func NewDataTypeFromType(t reflect.Type) (*Datatype, error) {
	enter("NewDataTypeFromType", false)
	switch t.Kind() {
	case reflect.Int:
		return &Datatype{class: T_INTEGER, size: 4, signed: true}, nil // H5T_NATIVE_INT
	case reflect.Int8:
		return &Datatype{class: T_INTEGER, size: 1, signed: true}, nil
	case reflect.Int16:
		return &Datatype{class: T_INTEGER, size: 2, signed: true}, nil
	case reflect.Int32:
		return &Datatype{class: T_INTEGER, size: 4, signed: true}, nil
	case reflect.Int64:
		return &Datatype{class: T_INTEGER, size: 8, signed: true}, nil
	case reflect.Uint:
		return &Datatype{class: T_INTEGER, size: 4}, nil // H5T_NATIVE_UINT
	case reflect.Uint8:
		return &Datatype{class: T_INTEGER, size: 1}, nil
	case reflect.Uint16:
		return &Datatype{class: T_INTEGER, size: 2}, nil
	case reflect.Uint32:
		return &Datatype{class: T_INTEGER, size: 4}, nil
	case reflect.Uint64:
		return &Datatype{class: T_INTEGER, size: 8}, nil
	case reflect.Float32:
		return &Datatype{class: T_FLOAT, size: 4, signed: true}, nil
	case reflect.Float64:
		return &Datatype{class: T_FLOAT, size: 8, signed: true}, nil
	}
	return nil, fmt.Errorf("hdf5 shim: unsupported type %v", t)
}

var typeClassToGoType = map[TypeClass]reflect.Type{
	T_INTEGER: reflect.TypeOf(int(0)),
	T_FLOAT:   reflect.TypeOf(float32(0)),
	T_STRING:  reflect.TypeOf(string("")),
}

func (t *Datatype) GoType() reflect.Type { return typeClassToGoType[t.class] }
func (t *Datatype) Size() uint           { return t.size }
func (t *Datatype) Class() TypeClass     { return t.class }
func (t *Datatype) Close() error {
	if t == nil {
		return nil
	}
	t.closed = true
	return nil
}

func NewPropList(cls PropType) (*PropList, error) {
	enter("NewPropList", false)
	return &PropList{}, nil
}

func (p *PropList) Close() error { p.closed = true; return nil }

func (p *PropList) SetDeflate(level int) error {
	p.deflate = true
	return nil
}

func (p *PropList) SetChunk(dims []uint) error {
	p.chunked = true
	return nil
}
