// Package core: shared types of the runtime-monitoring harness (driver and worker).
package core

import (
	"encoding/json"
	"fmt"
	"hash/fnv"
	"math"
	"os"
	"runtime/debug"
	"sort"
	"strings"
)

// ---------------------------------------------------------------------------
// PRNG: splitmix64, everything derives from VERIF_SEED

type Rand struct{ s uint64 }

func Mix(x uint64) uint64 {
	x += 0x9e3779b97f4a7c15
	x = (x ^ (x >> 30)) * 0xbf58476d1ce4e5b9
	x = (x ^ (x >> 27)) * 0x94d049bb133111eb
	return x ^ (x >> 31)
}

func HashStr(s string) uint64 {
	h := fnv.New64a()
	h.Write([]byte(s))
	return h.Sum64()
}

func NewRand(parts ...uint64) *Rand {
	s := uint64(0x1234567)
	for _, p := range parts {
		s = Mix(s ^ p)
	}
	return &Rand{s}
}

func (r *Rand) Uint64() uint64 {
	r.s += 0x9e3779b97f4a7c15
	z := r.s
	z = (z ^ (z >> 30)) * 0xbf58476d1ce4e5b9
	z = (z ^ (z >> 27)) * 0x94d049bb133111eb
	return z ^ (z >> 31)
}

// Intn returns a value in [0,n).
func (r *Rand) Intn(n int) int {
	if n <= 0 {
		return 0
	}
	return int(r.Uint64() % uint64(n))
}

// IntRange returns a value in [a,b].
func (r *Rand) IntRange(a, b int) int { return a + r.Intn(b-a+1) }

// Float64 returns a uniform value in [0,1) with a FULL 52-bit random mantissa whatever its magnitude (the exponent is
// drawn geometrically first). k/2^53 would put every value on one fixed grid, on which sums and differences of two
// values are exact - rounding-dependent behaviour (y0 + 1*(y1-y0) != y1) would never be exercised.
func (r *Rand) Float64() float64 {
	exp := 0
	for {
		u := r.Uint64()
		if u != 0 {
			z := 0
			for u&(1<<63) == 0 {
				u <<= 1
				z++
			}
			exp += z
			break
		}
		exp += 64
		if exp > 1000 {
			return 0
		}
	}
	mant := r.Uint64() >> 12 // 52 bits
	return math.Float64frombits(uint64(1022-exp)<<52 | mant)
}

// Range returns a value in [a,b], hitting the end points now and then.
func (r *Rand) Range(a, b float64) float64 {
	switch r.Intn(20) {
	case 0:
		return a
	case 1:
		return b
	}
	return a + (b-a)*r.Float64()
}

func (r *Rand) LogRange(a, b float64) float64 {
	switch r.Intn(20) {
	case 0:
		return a
	case 1:
		return b
	}
	return math.Exp(math.Log(a) + (math.Log(b)-math.Log(a))*r.Float64())
}

func (r *Rand) Bool(p float64) bool { return r.Float64() < p }

func (r *Rand) Exp(mean float64) float64 { return -mean * math.Log(1-r.Float64()) }

func (r *Rand) Perm(n int) []int {
	p := make([]int, n)
	for i := range p {
		p[i] = i
	}
	for i := n - 1; i > 0; i-- {
		j := r.Intn(i + 1)
		p[i], p[j] = p[j], p[i]
	}
	return p
}

// ---------------------------------------------------------------------------
// results

type Violation struct {
	Kind   string            `json:"kind"`
	Model  string            `json:"model,omitempty"`
	Attrs  map[string]string `json:"attrs,omitempty"`
	Detail string            `json:"detail"`
}

type Result struct {
	Violations   []Violation        `json:"violations,omitempty"`
	Inconclusive string             `json:"inconclusive,omitempty"`
	Class        string             `json:"class,omitempty"`
	Trivial      bool               `json:"trivial,omitempty"`
	Count        map[string]float64 `json:"count,omitempty"`
	Max          map[string]float64 `json:"max,omitempty"`
	Min          map[string]float64 `json:"min,omitempty"`
	Tags         []string           `json:"tags,omitempty"`
}

// Line is one line of the worker -> driver protocol.
type Line struct {
	T    string          `json:"t"` // begin | end | done
	Idx  int             `json:"idx"`
	Case json.RawMessage `json:"case,omitempty"`
	Res  *Result         `json:"res,omitempty"`
}

type Ctx struct {
	Prop    string
	WL      string
	Seed    uint64
	Tier    string
	Variant string
	Idx     int
	R       *Rand
	Res     Result
	begun   bool
	out     *json.Encoder
	tagset  map[string]bool
}

func NewCtx(prop, wl string, seed uint64, tier, variant string, idx int, out *json.Encoder) *Ctx {
	return &Ctx{Prop: prop, WL: wl, Seed: seed, Tier: tier, Variant: variant, Idx: idx,
		R: NewRand(seed, HashStr(prop+"/"+wl), uint64(idx)), out: out, tagset: map[string]bool{}}
}

// Begin logs the complete case BEFORE it is executed, so that the driver knows
// which case was in flight if the process dies.
func (c *Ctx) Begin(desc interface{}) {
	if c.begun {
		return
	}
	c.begun = true
	b, err := json.Marshal(desc)
	if err != nil {
		b, _ = json.Marshal(fmt.Sprintf("%v", desc))
	}
	c.out.Encode(Line{T: "begin", Idx: c.Idx, Case: b})
}

func (c *Ctx) Finish() {
	if !c.begun {
		c.Begin(nil)
	}
	sort.Strings(c.Res.Tags)
	c.out.Encode(Line{T: "end", Idx: c.Idx, Res: &c.Res})
}

func (c *Ctx) Violate(kind, model, detail string, attrs ...string) {
	if len(c.Res.Violations) >= 8 {
		return
	}
	for _, v := range c.Res.Violations {
		if v.Kind == kind && v.Model == model {
			return // one per kind per case
		}
	}
	v := Violation{Kind: kind, Model: model, Detail: detail}
	if len(attrs) > 0 {
		v.Attrs = map[string]string{}
		for i := 0; i+1 < len(attrs); i += 2 {
			v.Attrs[attrs[i]] = attrs[i+1]
		}
	}
	if len(v.Detail) > 1500 {
		v.Detail = v.Detail[:1500] + "..."
	}
	c.Res.Violations = append(c.Res.Violations, v)
}

func (c *Ctx) Violatef(kind, model, format string, a ...interface{}) {
	c.Violate(kind, model, fmt.Sprintf(format, a...))
}

func (c *Ctx) Inconclusive(reason string) { c.Res.Inconclusive = reason }
func (c *Ctx) Class(s string)             { c.Res.Class = s }
func (c *Ctx) Trivial()                   { c.Res.Trivial = true }

func (c *Ctx) Count(key string, v float64) {
	if c.Res.Count == nil {
		c.Res.Count = map[string]float64{}
	}
	c.Res.Count[key] += v
}

func (c *Ctx) Max(key string, v float64) {
	if math.IsNaN(v) {
		return
	}
	if c.Res.Max == nil {
		c.Res.Max = map[string]float64{}
	}
	if old, ok := c.Res.Max[key]; !ok || v > old {
		c.Res.Max[key] = v
	}
}

func (c *Ctx) Min(key string, v float64) {
	if math.IsNaN(v) {
		return
	}
	if c.Res.Min == nil {
		c.Res.Min = map[string]float64{}
	}
	if old, ok := c.Res.Min[key]; !ok || v < old {
		c.Res.Min[key] = v
	}
}

func (c *Ctx) Tag(t string) {
	if !c.tagset[t] {
		c.tagset[t] = true
		c.Res.Tags = append(c.Res.Tags, t)
	}
}

// Guard runs f and converts a panic on the calling goroutine into a violation.
func (c *Ctx) Guard(kind, model string, f func()) (ok bool) {
	defer func() {
		if r := recover(); r != nil {
			st := string(debug.Stack())
			// keep the frames below the panic
			if i := strings.Index(st, "panic("); i >= 0 {
				st = st[i:]
			}
			if len(st) > 900 {
				st = st[:900]
			}
			c.Violate(kind, model, fmt.Sprintf("panic: %v\n%s", r, st), "panic", firstLine(fmt.Sprint(r)))
			ok = false
		}
	}()
	f()
	return true
}

func firstLine(s string) string {
	if i := strings.IndexByte(s, '\n'); i >= 0 {
		return s[:i]
	}
	return s
}

// ---------------------------------------------------------------------------
// property registry

type Workload struct {
	Name    string
	Variant string // plain | race | asan
	N       func(tier string) int
	Run     func(c *Ctx)
	// TimeoutS: per-case watchdog in seconds (0 = default).  Expiry is inconclusive.
	TimeoutS int
	// Serial: do not run several worker processes at once.
	MaxProcs int
	Env      []string
}

type Prop struct {
	ID          string
	Level       string // exploration | translation_validation | ...
	Rule        string
	Assumptions []string
	Workloads   []Workload
	// Needs: extra build artefacts (build.sh variants: owsim, owsim-race, owsingle, libow)
	Needs []string
	// RequireTags must all be observed in a run, otherwise the run "observed nothing"
	RequireTags func(tier string) []string
	// ExpectTags are observations that depend on how the implementation works (an asynchronous writer that lags, a
	// solver exit, sub-stepping, several arrival orders of cell goroutines) or on verif hooks being called: when one is
	// not made the run says so (NOT-OBSERVED line, evidence key not_observed) but the verdict is unaffected - a correct
	// implementation without that mechanism must not fail the check.
	ExpectTags func(tier string) []string
	Exhaustive  func(tier string) bool
	// Extra evidence keys computed from the aggregate
	Extra func(agg *Aggregate) map[string]interface{}
}

type Aggregate struct {
	Count map[string]float64
	Max   map[string]float64
	Min   map[string]float64
	Tags  map[string]int
}

var Registry = map[string]*Prop{}

func Register(p *Prop) { Registry[p.ID] = p }

func Tiered(quick, thorough int) func(string) int {
	return func(t string) int {
		if t == "thorough" {
			return thorough
		}
		return quick
	}
}

func EnvInt(name string, def int) int {
	v := os.Getenv(name)
	if v == "" {
		return def
	}
	var n int
	if _, err := fmt.Sscanf(v, "%d", &n); err != nil {
		return def
	}
	return n
}

// ---------------------------------------------------------------------------
// numeric helpers shared by oracles

func RelClose(a, b, rel, abs float64) bool {
	if a == b {
		return true
	}
	if math.IsNaN(a) || math.IsNaN(b) {
		return math.IsNaN(a) && math.IsNaN(b)
	}
	if math.IsInf(a, 0) || math.IsInf(b, 0) {
		return a == b
	}
	d := math.Abs(a - b)
	return d <= abs+rel*math.Max(math.Abs(a), math.Abs(b))
}

func BitEq(a, b float64) bool { return math.Float64bits(a) == math.Float64bits(b) }

func BitEqSlice(a, b []float64) int {
	if len(a) != len(b) {
		return 0
	}
	for i := range a {
		if !BitEq(a[i], b[i]) {
			return i
		}
	}
	return -1
}

func Finite(x float64) bool { return !math.IsNaN(x) && !math.IsInf(x, 0) }

// SameSlice: first index where a and b differ (NaN equals NaN whatever the payload), -1 if equal.
func SameSlice(a, b []float64) int {
	if len(a) != len(b) {
		return 0
	}
	for i := range a {
		if !BitEq(a[i], b[i]) && !(math.IsNaN(a[i]) && math.IsNaN(b[i])) {
			return i
		}
	}
	return -1
}
