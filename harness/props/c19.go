package props

// C19 - the date generator follows the proleptic Gregorian calendar.

import (
	"fmt"
	"time"

	"verif/core"
)

func init() {
	core.Register(&core.Prop{
		ID:    "C19",
		Level: "exploration",
		Rule: "case = block of start dates x run length; every emitted (date, month, year, dayOfYear) is compared with Go's time package; " +
			"distinct = distinct (start-year class leap/century/400, run length bucket, workload); non-trivial = run crosses at least one month end",
		Assumptions: []string{"oracle: Go time.Date/AddDate/YearDay (proleptic Gregorian)", "start dates are valid calendar dates"},
		Workloads: []core.Workload{
			{Name: "longrun", Variant: "plain", N: core.Tiered(1, 2), Run: c19Long},
			{Name: "cycle", Variant: "plain", N: core.Tiered(400, 400), Run: c19Cycle},
			{Name: "special", Variant: "plain", N: core.Tiered(40, 400), Run: c19Special},
			// "started from any valid date ... for any number of steps" also holds for the n-th run of a process: sequences
			// of runs that repeat start dates with other lengths, while the caller recycles (clears) earlier output arrays
			// decades-long single runs (33000-70000 daily steps) from EVERY day of a year: a skip-ahead or block scheme inside
			// the generator only fails for the start dates that put a block boundary on a particular calendar day
			{Name: "longstarts", Variant: "plain", N: core.Tiered(366, 1500), Run: c19LongStarts, TimeoutS: 600},
			{Name: "history", Variant: "plain", N: core.Tiered(60, 3000), Run: c19History},
		},
		Exhaustive: func(t string) bool { return t == "thorough" },
	})
}

func runDates(c *core.Ctx, d, m, y, T int) (*MOut, error) {
	run := &MRun{Model: "DateGenerator", N: 1, T: T}
	run.Sets = []PSet{{{float64(d)}, {float64(m)}, {float64(y)}}}
	run.Inputs = [][][]float64{{make([]float64, T)}}
	return ExecuteFor(c, run)
}

func checkDates(c *core.Ctx, d, m, y, T int) {
	var out *MOut
	var err error
	if c.Idx%3 == 1 {
		// the calendar is the proleptic Gregorian one wherever the process runs: a third of the cases run with another
		// local time zone (daylight saving, far east / west of Greenwich), locale and working directory
		zone := WithOtherEnvironment(c.Idx/3, func() { out, err = runDates(c, d, m, y, T) })
		c.Tag("env:other-time-zone")
		c.Count("runs_in_zone/"+zone, 1)
	} else {
		out, err = runDates(c, d, m, y, T)
	}
	if err != nil {
		c.Violate("prepare", "DateGenerator", err.Error())
		return
	}
	checkDateOutputs(c, out, d, m, y, T)
}

func checkDateOutputs(c *core.Ctx, out *MOut, d, m, y, T int) {
	t0 := time.Date(y, time.Month(m), d, 0, 0, 0, 0, time.UTC)
	o := out.Out[0]
	for t := 0; t < T; t++ {
		tt := t0.AddDate(0, 0, t)
		want := [4]int{tt.Day(), int(tt.Month()), tt.Year(), tt.YearDay()}
		got := [4]float64{o[0][t], o[1][t], o[2][t], o[3][t]}
		for k := 0; k < 4; k++ {
			if got[k] != float64(want[k]) {
				c.Violate("date-mismatch", "DateGenerator", fmt.Sprintf("start %04d-%02d-%02d step %d: got (date,month,year,doy)=%v want %v", y, m, d, t, got, want))
				return
			}
		}
		if tt.Day() == 1 {
			c.Count("month_starts_seen", 1)
		}
		if tt.Month() == 2 && tt.Day() == 29 {
			c.Count("leap_days_seen", 1)
			if tt.Year()%100 == 0 {
				c.Count("century_leap_days_seen", 1)
			}
		}
		if tt.YearDay() == 1 {
			c.Count("year_starts_seen", 1)
		}
	}
	c.Count("day_transitions_checked", float64(T))
}

func yearClass(y int) string {
	switch {
	case y%400 == 0:
		return "y400"
	case y%100 == 0:
		return "century"
	case y%4 == 0:
		return "leap"
	}
	return "common"
}

func c19Long(c *core.Ctx) {
	y := []int{1600, 1}[c.Idx%2]
	T := 2 * 146097
	if c.Tier == "quick" {
		T = 146097 + 800
	}
	c.Begin(map[string]interface{}{"model": "DateGenerator", "start": fmt.Sprintf("%04d-01-01", y), "steps": T})
	c.Class(fmt.Sprintf("long/%d", y))
	checkDates(c, 1, 1, y, T)
}

// one case per year of the 400-year cycle: every start date of that year (thorough)
// or every 7th (quick)
func c19Cycle(c *core.Ctx) {
	y := 2000 + c.Idx
	step, T := 7, 60
	if c.Tier == "thorough" {
		step, T = 1, 400
	}
	c.Begin(map[string]interface{}{"model": "DateGenerator", "start_year": y, "every_nth_day": step, "steps": T})
	c.Class("cycle/" + yearClass(y) + fmt.Sprintf("/%d", y%7))
	t0 := time.Date(y, 1, 1, 0, 0, 0, 0, time.UTC)
	off := c.R.Intn(step)
	for dd := off; ; dd += step {
		tt := t0.AddDate(0, 0, dd)
		if tt.Year() != y {
			break
		}
		checkDates(c, tt.Day(), int(tt.Month()), tt.Year(), T)
		c.Count("start_dates", 1)
		if len(c.Res.Violations) > 0 {
			return
		}
	}
}

func c19Special(c *core.Ctx) {
	years := []int{1, 4, 100, 400, 1582, 1600, 1700, 1900, 2000, 2100, 2400, 9999, 1896, 1999}
	lens := []int{1, 2, 365, 366, 1461, 31, 59, 60}
	y := years[c.R.Intn(len(years))]
	if c.R.Bool(0.3) {
		y = c.R.IntRange(1, 9998)
	}
	T := lens[c.R.Intn(len(lens))]
	var d, m int
	switch c.R.Intn(4) {
	case 0:
		d, m = 28, 2
	case 1:
		d, m = 31, 12
	case 2:
		m = c.R.IntRange(1, 12)
		d = daysIn(m, y)
	default:
		m = c.R.IntRange(1, 12)
		d = c.R.IntRange(1, daysIn(m, y))
	}
	if y == 9999 && T > 300 {
		T = 2
		m, d = 1, 1
	}
	c.Begin(map[string]interface{}{"model": "DateGenerator", "start": fmt.Sprintf("%04d-%02d-%02d", y, m, d), "steps": T})
	c.Class(fmt.Sprintf("special/%s/T%d/m%d", yearClass(y), T, m))
	if T == 1 && d < 28 {
		c.Trivial()
	}
	checkDates(c, d, m, y, T)
	if c.R.Bool(0.1) {
		// "every run length" includes the empty run: the generator has nothing to write and must simply return
		CheckEmptyRun(c, "DateGenerator", []PSet{{{float64(d)}, {float64(m)}, {float64(y)}}}, [][]float64{{}})
	}
}

func c19History(c *core.Ctx) {
	type step struct {
		D, M, Y, T int
		Clear      bool `json:"clear_previous_outputs_first"`
	}
	var steps []step
	y := c.R.IntRange(1590, 2410)
	m := c.R.IntRange(1, 12)
	d := c.R.IntRange(1, daysIn(m, y))
	T := c.R.IntRange(30, 800)
	for k := c.R.IntRange(2, 6); k > 0; k-- {
		st := step{d, m, y, T, c.R.Bool(0.6)}
		steps = append(steps, st)
		switch c.R.Intn(4) {
		case 0: // another start
			y = c.R.IntRange(1590, 2410)
			m = c.R.IntRange(1, 12)
			d = c.R.IntRange(1, daysIn(m, y))
		case 1: // same start, shorter
			T = c.R.IntRange(1, T)
		case 2: // same start, longer
			T += c.R.IntRange(1, 400)
		}
	}
	c.Begin(map[string]interface{}{"model": "DateGenerator", "runs": steps})
	c.Class(fmt.Sprintf("history/%d", len(steps)))
	var prev []*Prepared
	for _, st := range steps {
		if st.Clear {
			for _, p := range prev {
				sh := p.Outputs.Shape()
				for i := 0; i < sh[0]; i++ {
					for j := 0; j < sh[1]; j++ {
						for k := 0; k < sh[2]; k++ {
							p.Outputs.Set3(i, j, k, 0)
						}
					}
				}
			}
			c.Count("earlier_output_arrays_cleared", float64(len(prev)))
		}
		run := &MRun{Model: "DateGenerator", N: 1, T: st.T, Sets: []PSet{{{float64(st.D)}, {float64(st.M)}, {float64(st.Y)}}}, Inputs: [][][]float64{{make([]float64, st.T)}}}
		p, err := Prepare(run)
		if err != nil {
			c.Violate("prepare", "DateGenerator", err.Error())
			return
		}
		out := p.Exec()
		prev = append(prev, p)
		checkDateOutputs(c, out, st.D, st.M, st.Y, st.T)
		if len(c.Res.Violations) > 0 {
			return
		}
		c.Count("runs_in_histories", 1)
	}
}

func c19LongStarts(c *core.Ctx) {
	// consecutive start days from a base date fixed by the seed (not by the case), so that a run covers whole years of starts
	base := time.Date(1850+int(c.Seed%200), 1, 1, 0, 0, 0, 0, time.UTC)
	tt := base.AddDate(0, 0, c.Idx)
	T := c.R.IntRange(33000, 70000)
	c.Begin(map[string]interface{}{"model": "DateGenerator", "start": tt.Format("2006-01-02"), "steps": T})
	c.Class(fmt.Sprintf("longstarts/%s/T%d", yearClass(tt.Year()), T/10000))
	c.Tag("longstarts")
	checkDates(c, tt.Day(), int(tt.Month()), tt.Year(), T)
}
