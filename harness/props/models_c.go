package props

// Running a catalogued model on caller-owned (C) memory, the way libopenwater's
// RunSingleModel callers do: all four arrays are cdata views on C buffers.

import (
	"fmt"
	"os"
	"os/exec"
	"strings"
	"sync"
	"time"
	_ "time/tzdata"

	"verif/core"
	"github.com/flowmatters/openwater-core/data"
	"github.com/flowmatters/openwater-core/data/cdata"
)

// ExecuteC runs r with parameters, states, inputs and outputs in C buffers of
// the given allocation mode and returns outputs, final states and whether all
// canaries around the buffers are intact. r.States must be set.
func ExecuteC(r *MRun, mode string) (*MOut, bool, error) {
	ref, err := Prepare(r)
	if err != nil {
		return nil, true, err
	}
	var bufs []*CBuf
	defer func() {
		for _, b := range bufs {
			b.Free()
		}
	}()
	toC := func(vals []float64, dims []int) data.NDFloat64 {
		cb := AllocC(len(vals)*8, mode)
		bufs = append(bufs, cb)
		copy(CSlice[float64](cb, len(vals)), vals)
		return cdata.NewFloat64CArray(cb.Ptr, dims)
	}
	m := NewModel(r.Model)
	prm := FlattenParams(ref.Desc, r.Sets)
	pArr := toC(flatten2(prm), []int{len(prm), len(r.Sets)}).(data.ND2Float64)
	dims := m.FindDimensions(pArr)
	if len(dims) > 0 {
		m.InitialiseDimensions(dims)
	}
	m.ApplyParameters(pArr)
	states0 := From2(ref.States)
	nst := 0
	if len(states0) > 0 {
		nst = len(states0[0])
	}
	sArr := toC(flatten2(states0), []int{r.N, nst}).(data.ND2Float64)
	iArr := toC(flatten3(r.Inputs), []int{len(r.Inputs), len(ref.Desc.Inputs), r.T}).(data.ND3Float64)
	oDims := []int{r.N, len(ref.Desc.Outputs), r.T}
	oArr := toC(make([]float64, prod(oDims)), oDims).(data.ND3Float64)
	m.Run(iArr, sArr, oArr)
	ok := true
	for _, b := range bufs {
		if !b.CanaryIntact() {
			ok = false
		}
	}
	o := &MOut{Out: From3(oArr, r.N, len(ref.Desc.Outputs), r.T), States: From2(sArr)}
	return o, ok, nil
}

// ExecuteFor runs r for case c. Where a model's arrays live is part of the input: every sixth case runs with all four
// arrays in caller-owned (C) memory, the way libopenwater's callers hold them, the others on Go-backed arrays. The
// choice depends on the case index only, so the random draws of the case are the same either way.
func ExecuteFor(c *core.Ctx, r *MRun) (*MOut, error) {
	if c == nil {
		return Execute(r)
	}
	if c.Idx%6 != 5 || r.PadCells != 0 || r.PadT != 0 || len(r.Surplus) != 0 {
		// Go-backed arrays; afterwards the caller's forcing data must be what the caller put there (every balance and
		// identity of the properties is stated against the series the caller supplied, and the caller uses them again)
		p, err := Prepare(r)
		if err != nil {
			return nil, err
		}
		if c.Idx%5 == 2 {
			// a second model of the same type, alive at the same time and given other parameters after this one was set
			// up and before it runs (two catchments configured first, then run): objects of one type are independent
			rr := core.NewRand(uint64(c.Idx), 0x7369626c)
			ops := GenPSet(r.Model, rr, genOpts{widthClass: 1 + rr.Intn(13)})
			sib := &MRun{Model: r.Model, N: 1, T: 1, Sets: []PSet{ops}, Inputs: [][][]float64{GenInputs(r.Model, rr, 1, ops)}}
			if _, err := PrepareOn(NewModel(r.Model), sib); err == nil {
				c.Tag("objects:sibling-parameterised-in-between")
			}
		}
		o := p.Exec()
		if len(p.Desc.Inputs) > 0 && r.T > 0 {
			after := From3(p.Inputs, len(r.Inputs), len(p.Desc.Inputs), r.T)
			if d, bad := diffBits3(r.Inputs, after); bad {
				c.Violate("caller-inputs-modified", r.Model, "Run changed the caller's input array: "+d+" (before vs after the call)")
			}
		}
		return o, nil
	}
	c.Tag("arrays:caller-c-memory")
	o, _, err := ExecuteC(r, []string{"guard-after", "guard-before", "malloc"}[(c.Idx/6)%3])
	return o, err
}

// ---------------------------------------------------------------------------
// Series of length zero. Several kernels read step 0 before their loop and panic on a cell goroutine when there is none,
// which ends the process; whether a model accepts an empty series is therefore asked of a child process (this binary with
// VERIF_PROBE_EMPTY=<model>), once per model and worker. Cases with T = 0 are only generated for models that do.

func init() {
	m := os.Getenv("VERIF_PROBE_EMPTY")
	if m == "" {
		return
	}
	run := emptied(GenRun(m, core.NewRand(0x656d707479), 1, 1, 1, 1, 0))
	if _, err := Execute(run); err != nil {
		os.Exit(3)
	}
	fmt.Println("EMPTY-SERIES-OK")
	os.Exit(0)
}

// emptied cuts every input series of r to length zero.
func emptied(r *MRun) *MRun {
	r.T = 0
	for b := range r.Inputs {
		for i := range r.Inputs[b] {
			r.Inputs[b][i] = []float64{}
		}
	}
	return r
}

var emptyOK sync.Map

func EmptySeriesOK(model string) bool {
	if v, ok := emptyOK.Load(model); ok {
		return v.(bool)
	}
	self, err := os.Executable()
	ok := false
	if err == nil {
		cmd := exec.Command(self)
		cmd.Env = append(os.Environ(), "VERIF_PROBE_EMPTY="+model)
		out, e := cmd.CombinedOutput()
		ok = e == nil && strings.Contains(string(out), "EMPTY-SERIES-OK")
	}
	emptyOK.Store(model, ok)
	return ok
}

var emptyCrashReported sync.Map

// CheckEmptyRun: a Run over a period of zero timesteps is a legal call (a hot-start caller whose window is empty makes
// it): it must return, and it must leave the states it was handed exactly as they are - no timestep ran. states are the
// final states of a run with the same parameters, so they are consistent with them.
func CheckEmptyRun(c *core.Ctx, model string, sets []PSet, states [][]float64) {
	if !EmptySeriesOK(model) {
		if _, done := emptyCrashReported.LoadOrStore(model, true); !done {
			c.Violate("empty-run-crashes", model, "a Run over an empty period (inputs and outputs with a time axis of extent 0) does not return: a child process making that call died")
		}
		return
	}
	desc := NewModel(model).Description()
	in := make([][]float64, len(desc.Inputs))
	for i := range in {
		in[i] = []float64{}
	}
	run := &MRun{Model: model, N: len(states), T: 0, Sets: sets, Inputs: [][][]float64{in}, States: clone2(states)}
	out, err := Execute(run)
	if err != nil {
		c.Violate("prepare", model, err.Error())
		return
	}
	c.Count("empty_runs_checked", 1)
	for i := range states {
		for j := range states[i] {
			if j < len(out.States[i]) && !core.BitEq(out.States[i][j], states[i][j]) && !(states[i][j] != states[i][j] && out.States[i][j] != out.States[i][j]) {
				c.Violate("empty-run-changes-states", model, fmt.Sprintf("a Run over an empty period changed state %d of cell %d from %v to %v (states before %v, after %v)", j, i, states[i][j], out.States[i][j], states[i], out.States[i]))
				return
			}
		}
	}
}

// HostileHistory makes the process look like one that has been working with this model for a while - a calibration loop:
// the case's own parameter set is run once, then 70-140 other parameterisations on fresh objects with tiny series.
// Whatever the library keeps between calls and keys by parameter values (tables, pools, bounded caches that evict and
// recycle entries) is then in the state it has in a long-lived process rather than in a fresh one. Results of the runs
// are not looked at here: the checks of the case that follows do that.
func HostileHistory(c *core.Ctx, model string, sets []PSet) {
	r := core.NewRand(c.R.Uint64(), 0x68697374)
	desc := NewModel(model).Description()
	tiny := func(ps PSet) {
		in := GenInputs(model, r, 2, ps)
		_ = desc
		Execute(&MRun{Model: model, N: 1, T: 2, Sets: []PSet{ps}, Inputs: [][][]float64{in}})
	}
	for _, ps := range sets {
		tiny(ps)
	}
	n := r.IntRange(70, 140)
	for i := 0; i < n; i++ {
		tiny(GenPSet(model, r, genOpts{widthClass: 1 + r.Intn(13)}))
	}
	c.Tag("history:many-parameterisations-before")
	c.Count("runs_made_as_hostile_history", float64(n+len(sets)))
}

// WithOtherEnvironment runs f in a process environment that differs from the harness's in things no property mentions:
// local time zone (zones with daylight saving, far east and far west of Greenwich), locale variables, working directory.
// Results of the library may not depend on any of it. Everything is restored afterwards. Returns a label of the variant.
func WithOtherEnvironment(k int, f func()) string {
	zones := []string{"America/New_York", "Australia/Sydney", "Europe/London", "Pacific/Kiritimati", "Pacific/Pago_Pago", "America/Santiago"}
	zone := zones[k%len(zones)]
	oldLocal := time.Local
	if loc, err := time.LoadLocation(zone); err == nil {
		time.Local = loc
	}
	saved := map[string]*string{}
	for _, kv := range [][2]string{{"TZ", zone}, {"LANG", "de_DE.UTF-8"}, {"LC_ALL", "de_DE.UTF-8"}, {"LC_NUMERIC", "de_DE.UTF-8"}} {
		if v, ok := os.LookupEnv(kv[0]); ok {
			vv := v
			saved[kv[0]] = &vv
		} else {
			saved[kv[0]] = nil
		}
		os.Setenv(kv[0], kv[1])
	}
	wd, _ := os.Getwd()
	if td, err := os.MkdirTemp("", "verif-cwd-"); err == nil {
		os.Chdir(td)
		defer os.RemoveAll(td)
	}
	defer func() {
		time.Local = oldLocal
		for k, v := range saved {
			if v == nil {
				os.Unsetenv(k)
			} else {
				os.Setenv(k, *v)
			}
		}
		if wd != "" {
			os.Chdir(wd)
		}
	}()
	f()
	return zone
}
