package props

// C08 - HDF5 array I/O round-trips, addresses exactly the selected region, and locks.
// Runs the real io package on the HDF5 shim (trusted base, DESIGN 3.3).

import (
	"fmt"
	"os"
	"path/filepath"
	"sort"
	"sync"
	"sync/atomic"
	"time"
	"unsafe"

	"github.com/anishathalye/porcupine"
	owio "github.com/flowmatters/openwater-core/io"
	"gonum.org/v1/hdf5"
	"verif/core"
)

func init() {
	core.Register(&core.Prop{
		ID:    "C08",
		Level: "exploration",
		Rule: "roundtrip: (type, source view kind) Write then Load; selection: dataset x per-dimension [start,stop,step]/nil selections vs the in-memory slice (numpy semantics); blocks: Create + WriteSlice sequences vs a shadow dataset read back through the shim tree; create: idempotence and shape refusal; " +
			"enumerate: sliceSize/makeHyperslab on size 0..8, start/stop 0..10, step 1..4 (exhaustive); lock: every shim library call probes the package lock; concurrent: 4-8 goroutines of WriteSlice/Write/Load with unique ids, history checked with porcupine, also in the -race build (shim canary word); " +
			"distinct = distinct (workload, type, shape/selection class); non-trivial = at least one element transferred",
		Assumptions: []string{
			"the HDF5 library is replaced by the pure-Go shim /verif/shim/hdf5 (libhdf5 is not installed); shim semantics follow the HDF5 manual and the gonum binding source, incl. reflect.Int/Uint -> 4-byte H5T_NATIVE_INT/UINT and raw (file-type) transfers",
			"selection semantics: start'=min(start,size), count=ceil((min(stop,size)-start')/step) clipped at 0; empty selections require 'an error, or an empty array of exactly the in-memory slice's shape; no crash'",
			"arrays handed to Write have at least one element (Write inspects element 0 to choose the dataset type); datasets with an axis of extent 0 are made with Create, as ow-sim makes them",
			"a pending writer can make the lock probe report 'exclusive' while only readers hold the lock: can miss, cannot invent a violation",
		},
		Workloads: []core.Workload{
			{Name: "roundtrip", Variant: "plain", N: core.Tiered(8*40, 8*1500), Run: c08Roundtrip},
			{Name: "selection", Variant: "plain", N: core.Tiered(400, 20000), Run: c08Selection},
			{Name: "selection-seq", Variant: "plain", N: core.Tiered(150, 6000), Run: c08SelectionSeq},
			{Name: "blocks", Variant: "plain", N: core.Tiered(150, 5000), Run: c08Blocks},
			{Name: "create", Variant: "plain", N: core.Tiered(60, 1500), Run: c08Create},
			{Name: "enumerate", Variant: "plain", N: core.Tiered(9, 9), Run: c08Enumerate},
			{Name: "meta", Variant: "plain", N: core.Tiered(30, 500), Run: c08Meta},
			{Name: "concurrent", Variant: "plain", N: core.Tiered(60, 2000), Run: c08Concurrent, TimeoutS: 300},
			{Name: "concurrent-create", Variant: "plain", N: core.Tiered(60, 2000), Run: c08ConcurrentCreate, TimeoutS: 300},
			{Name: "concurrent-race", Variant: "race", N: core.Tiered(30, 600), Run: c08ConcurrentRace, Env: []string{"GORACE=halt_on_error=1 exitcode=66"}, TimeoutS: 300},
		},
		RequireTags: func(string) []string { return []string{"probe:held", "probe:exclusive", "porcupine:ok", "sel:stop-beyond-extent", "sel:nil-dim", "sel:step>1", "blocks:zero-block"} },
		Exhaustive:  func(string) bool { return false },
	})
}

// ---------------------------------------------------------------------------
// lock probe (installed once per worker process, plain build only)

var (
	probeOnce     sync.Once
	probeCalls    uint64
	probeHeld     uint64
	probeExcl     uint64
	probeMu       sync.Mutex
	probeProblems []string
)

func installProbe() {
	probeOnce.Do(func() {
		hdf5.Hook = func(call string, mutating bool) {
			held, excl := owio.VerifLockProbe()
			atomic.AddUint64(&probeCalls, 1)
			if held {
				atomic.AddUint64(&probeHeld, 1)
			}
			if excl {
				atomic.AddUint64(&probeExcl, 1)
			}
			if !held {
				probeMu.Lock()
				probeProblems = append(probeProblems, "library call "+call+" was made without holding the package lock")
				probeMu.Unlock()
			} else if mutating && !excl {
				probeMu.Lock()
				probeProblems = append(probeProblems, "mutating library call "+call+" was made while the package lock was held only shared")
				probeMu.Unlock()
			}
		}
	})
}

// probeReport attaches the probe observations made since the last call to the case.
func probeReport(c *core.Ctx) {
	calls, held, excl := atomic.SwapUint64(&probeCalls, 0), atomic.SwapUint64(&probeHeld, 0), atomic.SwapUint64(&probeExcl, 0)
	c.Count("library_calls_probed", float64(calls))
	c.Count("probe_lock_held", float64(held))
	c.Count("probe_lock_exclusive", float64(excl))
	if held > 0 {
		c.Tag("probe:held")
	}
	if excl > 0 {
		c.Tag("probe:exclusive")
	}
	probeMu.Lock()
	pp := probeProblems
	probeProblems = nil
	probeMu.Unlock()
	seen := map[string]bool{}
	for _, p := range pp {
		if !seen[p] {
			seen[p] = true
			c.Violate("lock-discipline", "io", p)
		}
	}
}

func c08File(c *core.Ctx, tag string) string {
	dir := os.Getenv("VERIF_WORKDIR")
	if dir == "" {
		dir = "/verif/work/C08"
	}
	os.MkdirAll(dir, 0755)
	return filepath.Join(dir, fmt.Sprintf("c08-%s-%d-%d.h5", tag, os.Getpid(), c.Idx))
}

func withIOBackend(typ string, f64 func(*IOBackend[float64], *Backend[float64]), f32 func(*IOBackend[float32], *Backend[float32]), i32 func(*IOBackend[int32], *Backend[int32]),
	u32 func(*IOBackend[uint32], *Backend[uint32]), i64 func(*IOBackend[int64], *Backend[int64]), u64 func(*IOBackend[uint64], *Backend[uint64]), i func(*IOBackend[int], *Backend[int]), u func(*IOBackend[uint], *Backend[uint])) {
	switch typ {
	case "float64":
		f64(ioBackendFloat64(), backendFloat64())
	case "float32":
		f32(ioBackendFloat32(), backendFloat32())
	case "int32":
		i32(ioBackendInt32(), backendInt32())
	case "uint32":
		u32(ioBackendUint32(), backendUint32())
	case "int64":
		i64(ioBackendInt64(), backendInt64())
	case "uint64":
		u64(ioBackendUint64(), backendUint64())
	case "int":
		i(ioBackendInt(), backendInt())
	case "uint":
		u(ioBackendUint(), backendUint())
	}
}

// ---------------------------------------------------------------------------
// round trip

type rtCase struct {
	Model  string `json:"model"`
	Type   string `json:"type"`
	Root   []int  `json:"root_dims"`
	Loc    []int  `json:"loc"`
	Dims   []int  `json:"dims"`
	Step   []int  `json:"step"`
	Kind   string `json:"view_kind"`
	Nested bool   `json:"dataset_in_nested_group"`
}

func genView(r *core.Rand) (root, loc, dims, step []int, kind string) {
	nd := r.IntRange(1, 4)
	dims = make([]int, nd)
	for i := range dims {
		dims[i] = r.IntRange(1, 5)
	}
	loc = make([]int, nd)
	step = make([]int, nd)
	root = make([]int, nd)
	kind = []string{"contiguous", "gapped", "stepped", "column", "one-wide"}[r.Intn(5)]
	for i := range dims {
		step[i] = 1
		root[i] = dims[i]
	}
	switch kind {
	case "gapped":
		for i := range dims {
			loc[i] = r.IntRange(0, 2)
			root[i] = loc[i] + dims[i] + r.IntRange(0, 2)
		}
	case "stepped":
		for i := range dims {
			step[i] = r.IntRange(1, 3)
			loc[i] = r.IntRange(0, 1)
			root[i] = loc[i] + (dims[i]-1)*step[i] + 1 + r.IntRange(0, 1)
		}
	case "column":
		dims[nd-1] = 1
		root[nd-1] = 4
		loc[nd-1] = r.IntRange(0, 3)
	case "one-wide":
		k := r.Intn(nd)
		dims[k] = 1
		root[k] = 1
	}
	return
}

func c08Roundtrip(c *core.Ctx) {
	installProbe()
	typ := arrayTypes[c.Idx%8]
	root, loc, dims, step, kind := genView(c.R)
	rc := rtCase{"io/" + typ, typ, root, loc, dims, step, kind, c.R.Bool(0.5)}
	c.Begin(rc)
	c.Class(fmt.Sprintf("roundtrip/%s/%s/nd%d", typ, kind, len(dims)))
	withIOBackend(typ,
		func(io *IOBackend[float64], b *Backend[float64]) { roundtrip(c, io, b, rc) },
		func(io *IOBackend[float32], b *Backend[float32]) { roundtrip(c, io, b, rc) },
		func(io *IOBackend[int32], b *Backend[int32]) { roundtrip(c, io, b, rc) },
		func(io *IOBackend[uint32], b *Backend[uint32]) { roundtrip(c, io, b, rc) },
		func(io *IOBackend[int64], b *Backend[int64]) { roundtrip(c, io, b, rc) },
		func(io *IOBackend[uint64], b *Backend[uint64]) { roundtrip(c, io, b, rc) },
		func(io *IOBackend[int], b *Backend[int]) { roundtrip(c, io, b, rc) },
		func(io *IOBackend[uint], b *Backend[uint]) { roundtrip(c, io, b, rc) })
	probeReport(c)
}

func roundtrip[T Num](c *core.Ctx, io *IOBackend[T], b *Backend[T], rc rtCase) {
	model := rc.Model
	n := prod(rc.Root)
	buf := make([]T, n)
	for i := range buf {
		buf[i] = T(i + 1)
		if i%3 == 0 {
			buf[i] = T(200000 + i*7919) // values needing more than 16 bits
		}
		if i%5 == 1 {
			buf[i] = extremeValue[T](rc.Type, i) // values at the far ends of the element type's range
		}
	}
	rootArr := b.FromSlice(buf, cpInts(rc.Root))
	view := rootArr.Slice(cpInts(rc.Loc), cpInts(rc.Dims), cpInts(rc.Step))
	sh := newShadowRoot[T](0, rc.Root)
	copy(sh.st.data, buf)
	want := sh.slice(rc.Loc, rc.Dims, rc.Step).values()
	file := c08File(c, "rt")
	defer os.Remove(file)
	ds := "/data"
	if rc.Nested {
		// nested groups, also with names that repeat along the path or contain one another
		ds = []string{"/GROUP/sub/data", "/runs/runs/q", "/scenario/sub_scenario/storage", "/a/ab/a", "/x/x/x/x", "/results/baseline_results/flow", "/M/M"}[(len(want)+len(rc.Dims)+rc.Root[0])%7]
	}
	var got Arr[T]
	var err error
	if !c.Guard("io-panic", model, func() {
		if err = io.Write(file, ds, view); err != nil {
			return
		}
		got, err = io.Load(file, ds, nil)
	}) {
		return
	}
	if err != nil {
		c.Violate("roundtrip-error", model, fmt.Sprintf("Write/Load of a %s view of shape %v failed: %v", rc.Kind, rc.Dims, err))
		return
	}
	if !sameShape(got.Shape(), rc.Dims) {
		c.Violate("roundtrip-shape", model, fmt.Sprintf("wrote a view of shape %v, loaded shape %v", rc.Dims, got.Shape()), "type", rc.Type)
		return
	}
	for f := range want {
		if g := got.Get(unflatten(rc.Dims, f)); !eqT(g, want[f]) {
			c.Violate("roundtrip-values", model, fmt.Sprintf("element %v: wrote %v, loaded %v (%s view of shape %v, %d elements)", unflatten(rc.Dims, f), want[f], g, rc.Kind, rc.Dims, len(want)), "type", rc.Type)
			return
		}
	}
	c.Count("elements_round_tripped", float64(len(want)))
	// Exists / Shape agree
	if !io.Exists(file, ds) {
		c.Violate("exists", model, "Exists() is false for a dataset that was just written: "+ds)
	}
	if io.Exists(file, ds+"_nope") {
		c.Violate("exists", model, "Exists() is true for a dataset that was never written")
	}
	if shp, err := io.Shape(file, ds); err != nil || !sameShape(shp, rc.Dims) {
		c.Violate("shape", model, fmt.Sprintf("Shape()=%v,%v expected %v", shp, err, rc.Dims))
	}
}

// ---------------------------------------------------------------------------
// selections

type selCase struct {
	Model string  `json:"model"`
	Type  string  `json:"type"`
	Dims  []int   `json:"dataset_dims"`
	Sel   [][]int `json:"selection"`
}

func c08Selection(c *core.Ctx) {
	installProbe()
	typ := []string{"float64", "float64", "int32", "float32", "uint64", "int64", "uint32"}[c.R.Intn(7)]
	nd := c.R.IntRange(1, 3)
	dims := make([]int, nd)
	sel := make([][]int, nd)
	for i := range dims {
		dims[i] = c.R.IntRange(1, 8)
		if nd > 1 && c.R.Bool(0.06) {
			dims[i] = 0 // a dataset with an axis of extent zero (the states table of stateless models)
		}
		if c.R.Bool(0.25) {
			sel[i] = nil
			continue
		}
		start := c.R.IntRange(0, dims[i]+1)
		stop := c.R.IntRange(0, dims[i]+3)
		if c.R.Bool(0.6) && start < dims[i] {
			stop = c.R.IntRange(start+1, dims[i]+3)
		}
		sel[i] = []int{start, stop, c.R.IntRange(1, 4)}
	}
	sc := selCase{"io/" + typ, typ, dims, sel}
	c.Begin(sc)
	withIOBackend(typ,
		func(io *IOBackend[float64], b *Backend[float64]) { selection(c, io, b, sc) },
		func(io *IOBackend[float32], b *Backend[float32]) { selection(c, io, b, sc) },
		func(io *IOBackend[int32], b *Backend[int32]) { selection(c, io, b, sc) },
		func(io *IOBackend[uint32], b *Backend[uint32]) { selection(c, io, b, sc) },
		func(io *IOBackend[int64], b *Backend[int64]) { selection(c, io, b, sc) },
		func(io *IOBackend[uint64], b *Backend[uint64]) { selection(c, io, b, sc) },
		nil, nil)
	probeReport(c)
}

func selection[T Num](c *core.Ctx, io *IOBackend[T], b *Backend[T], sc selCase) {
	model := sc.Model
	n := prod(sc.Dims)
	buf := make([]T, n)
	for i := range buf {
		buf[i] = T(i + 1)
	}
	full := b.FromSlice(buf, cpInts(sc.Dims))
	file := c08File(c, "sel")
	defer os.Remove(file)
	if n == 0 {
		// Write inspects element 0 to choose the dataset type; datasets with an axis of extent zero are made with Create
		// (which is how ow-sim makes the states table of stateless models)
		c.Tag("sel:zero-extent-dataset")
		var fill T
		if err := io.Create(file, "/d", cpInts(sc.Dims), fill, false); err != nil {
			c.Violate("roundtrip-error", model, "Create of a dataset with a zero extent: "+err.Error())
			return
		}
	} else if err := io.Write(file, "/d", full); err != nil {
		c.Violate("roundtrip-error", model, err.Error())
		return
	}
	// expected in-memory slice (numpy semantics)
	loc, cnt, step := make([]int, len(sc.Dims)), make([]int, len(sc.Dims)), make([]int, len(sc.Dims))
	empty := false
	cls := ""
	allNil := true
	for i, s := range sc.Sel {
		if s == nil {
			loc[i], cnt[i], step[i] = 0, sc.Dims[i], 1
			c.Tag("sel:nil-dim")
			cls += "n"
			continue
		}
		allNil = false
		st := minInt(s[0], sc.Dims[i])
		sp := minInt(s[1], sc.Dims[i])
		k := 0
		if sp > st {
			k = (sp - st + s[2] - 1) / s[2]
		}
		loc[i], cnt[i], step[i] = st, k, s[2]
		if k == 0 {
			empty = true
		}
		if s[1] > sc.Dims[i] {
			c.Tag("sel:stop-beyond-extent")
			cls += "b"
		}
		if s[2] > 1 {
			c.Tag("sel:step>1")
			cls += "s"
			if k > 0 && (sp-st)%s[2] != 0 {
				cls += "r" // remainder: ceil differs from floor
			}
		}
	}
	c.Class(fmt.Sprintf("selection/%s/nd%d/%s/empty%v", sc.Type, len(sc.Dims), cls, empty))
	if allNil {
		c.Trivial()
	}
	var got Arr[T]
	var err error
	selArg := cloneSel(sc.Sel)
	if !c.Guard("io-panic", model, func() { got, err = io.Load(file, "/d", selArg) }) {
		return
	}
	if !sameSel(selArg, sc.Sel) {
		c.Violate("selection-argument-modified", model, fmt.Sprintf("Load changed the caller's selection from %v to %v (dataset shape %v)", sc.Sel, selArg, sc.Dims))
	}
	if empty {
		// error or empty array; no crash
		c.Count("empty_selections", 1)
		if err == nil && got != nil && prod(got.Shape()) != 0 {
			c.Violate("selection-empty", model, fmt.Sprintf("selection %v of a dataset of shape %v is empty but Load returned shape %v", sc.Sel, sc.Dims, got.Shape()))
		} else if err == nil && got != nil && !sameShape(got.Shape(), cnt) {
			// an empty result still has the shape of the in-memory slice (callers size their loops by it)
			c.Violate("selection-shape", model, fmt.Sprintf("selection %v of a dataset of shape %v: loaded shape %v, the in-memory slice [start:stop:step] has shape %v", sc.Sel, sc.Dims, got.Shape(), cnt))
		}
		return
	}
	if err != nil {
		c.Violate("selection-error", model, fmt.Sprintf("selection %v of a dataset of shape %v: %v", sc.Sel, sc.Dims, err))
		return
	}
	sh := newShadowRoot[T](0, sc.Dims)
	copy(sh.st.data, buf)
	want := sh.slice(loc, cnt, step)
	if !sameShape(got.Shape(), cnt) {
		c.Violate("selection-shape", model, fmt.Sprintf("selection %v of a dataset of shape %v: loaded shape %v, the in-memory slice [start:stop:step] has shape %v", sc.Sel, sc.Dims, got.Shape(), cnt))
		return
	}
	wv := want.values()
	for f := range wv {
		if g := got.Get(unflatten(cnt, f)); !eqT(g, wv[f]) {
			c.Violate("selection-values", model, fmt.Sprintf("selection %v of shape %v: element %v is %v, the in-memory slice has %v", sc.Sel, sc.Dims, unflatten(cnt, f), g, wv[f]))
			return
		}
	}
	c.Count("selected_elements_compared", float64(len(wv)))
}

// ---------------------------------------------------------------------------
// block placement: Create + WriteSlice sequence vs shadow dataset

func rawDataset[T Num](file, ds string) ([]T, []int, error) {
	t, err := hdf5.LoadTree(file)
	if err != nil {
		return nil, nil, err
	}
	n := t.Root.Lookup(ds)
	if n == nil || n.IsGroup {
		return nil, nil, fmt.Errorf("dataset %s not in file", ds)
	}
	dims := make([]int, len(n.Dims))
	for i, d := range n.Dims {
		dims[i] = int(d)
	}
	var zero T
	es := int(unsafe.Sizeof(zero))
	if n.ElemSize != es {
		return nil, dims, fmt.Errorf("dataset element size %d, Go type size %d", n.ElemSize, es)
	}
	cnt := prod(dims)
	res := make([]T, cnt)
	if cnt > 0 {
		copy(unsafe.Slice((*byte)(unsafe.Pointer(&res[0])), cnt*es), n.Data)
	}
	return res, dims, nil
}

type blkOp struct {
	Loc  []int `json:"loc"`
	Dims []int `json:"dims"`
	Kind string `json:"source_view_kind"`
}

func c08Blocks(c *core.Ctx) {
	installProbe()
	nd := c.R.IntRange(1, 3)
	dims := make([]int, nd)
	for i := range dims {
		dims[i] = c.R.IntRange(1, 7)
	}
	var ops []blkOp
	for k := 0; k < c.R.IntRange(2, 10); k++ {
		o := blkOp{Loc: make([]int, nd), Dims: make([]int, nd), Kind: []string{"contiguous", "stepped"}[c.R.Intn(2)]}
		for i := range dims {
			o.Dims[i] = c.R.IntRange(1, dims[i])
			o.Loc[i] = c.R.IntRange(0, dims[i]-o.Dims[i])
		}
		ops = append(ops, o)
	}
	c.Begin(map[string]interface{}{"model": "io/float64", "dataset_dims": dims, "writes": ops})
	c.Class(fmt.Sprintf("blocks/nd%d/ops%d", nd, len(ops)))
	io := ioBackendFloat64()
	b := backendFloat64()
	file := c08File(c, "blk")
	defer os.Remove(file)
	if err := io.Create(file, "/M/x/outputs", dims, 0, false); err != nil {
		c.Violate("create-error", "io/float64", err.Error())
		return
	}
	shadow := make([]float64, prod(dims))
	next := 1.0
	for k, o := range ops {
		// source block, possibly a stepped view of a bigger array
		n := prod(o.Dims)
		vals := make([]float64, n)
		for i := range vals {
			vals[i] = next
			next++
		}
		// blocks of zeros (over cells that may already hold data) and single zeros are values like any other
		if k > 0 && c.R.Bool(0.25) {
			for i := range vals {
				vals[i] = 0
			}
			c.Tag("blocks:zero-block")
		} else if c.R.Bool(0.3) {
			vals[c.R.Intn(n)] = 0
		}
		var src Arr[float64]
		if o.Kind == "stepped" {
			rd := make([]int, nd)
			st := make([]int, nd)
			for i := range rd {
				rd[i] = 2*o.Dims[i] + 1
				st[i] = 2
			}
			root := b.New(rd)
			src = root.Slice(make([]int, nd), cpInts(o.Dims), st)
			for f := 0; f < n; f++ {
				src.Set(unflatten(o.Dims, f), vals[f])
			}
		} else {
			src = b.FromSlice(append([]float64{}, vals...), cpInts(o.Dims))
		}
		var err error
		if !c.Guard("io-panic", "io/float64", func() { err = io.WriteSlice(file, "/M/x/outputs", src, cpInts(o.Loc)) }) {
			return
		}
		if err != nil {
			c.Violate("writeslice-error", "io/float64", fmt.Sprintf("write %d %+v: %v", k, o, err))
			return
		}
		// shadow
		for f := 0; f < n; f++ {
			li := unflatten(o.Dims, f)
			off := 0
			for d := range dims {
				off = off*dims[d] + o.Loc[d] + li[d]
			}
			shadow[off] = vals[f]
		}
		raw, _, err := rawDataset[float64](file, "/M/x/outputs")
		if err != nil {
			c.Violate("writeslice-error", "io/float64", err.Error())
			return
		}
		for i := range shadow {
			if raw[i] != shadow[i] {
				c.Violate("block-placement", "io/float64", fmt.Sprintf("after write %d (%+v) into a dataset of shape %v: cell %v holds %v, expected %v (a block must change exactly its own cells)", k, o, dims, unflatten(dims, i), raw[i], shadow[i]))
				return
			}
		}
		c.Count("dataset_cells_compared", float64(len(shadow)))
		c.Count("block_writes", 1)
	}
	probeReport(c)
}

// ---------------------------------------------------------------------------
// Create idempotence / shape refusal

func c08Create(c *core.Ctx) {
	installProbe()
	nd := c.R.IntRange(1, 3)
	dims := make([]int, nd)
	for i := range dims {
		dims[i] = c.R.IntRange(1, 5)
	}
	other := cpInts(dims)
	switch c.R.Intn(3) {
	case 0:
		other[c.R.Intn(nd)]++
	case 1:
		other = append(other, 1)
	default:
		if nd > 1 {
			other = other[:nd-1]
		} else {
			other[0] += 2
		}
	}
	c.Begin(map[string]interface{}{"model": "io/float64", "dims": dims, "other_shape": other})
	c.Class(fmt.Sprintf("create/nd%d", nd))
	io := ioBackendFloat64()
	b := backendFloat64()
	file := c08File(c, "cr")
	defer os.Remove(file)
	n := prod(dims)
	buf := make([]float64, n)
	for i := range buf {
		buf[i] = float64(i) + 0.5
	}
	if err := io.Write(file, "/g/d", b.FromSlice(buf, cpInts(dims))); err != nil {
		c.Violate("roundtrip-error", "io/float64", err.Error())
		return
	}
	before, _, _ := rawDataset[float64](file, "/g/d")
	if err := io.Create(file, "/g/d", cpInts(dims), 99, false); err != nil {
		c.Violate("create-existing-error", "io/float64", fmt.Sprintf("Create on an existing dataset with the same shape %v returned %v", dims, err))
	}
	after, _, _ := rawDataset[float64](file, "/g/d")
	for i := range before {
		if before[i] != after[i] {
			c.Violate("create-changed-contents", "io/float64", fmt.Sprintf("Create on an existing dataset changed cell %d from %v to %v", i, before[i], after[i]))
			break
		}
	}
	err := io.Create(file, "/g/d", other, 0, false)
	if err == nil {
		c.Violate("create-different-shape-accepted", "io/float64", fmt.Sprintf("Create with shape %v on an existing dataset of shape %v was not refused", other, dims))
	}
	after2, d2, _ := rawDataset[float64](file, "/g/d")
	if !sameShape(d2, dims) {
		c.Violate("create-changed-contents", "io/float64", fmt.Sprintf("refused Create changed the dataset shape to %v", d2))
	}
	for i := range before {
		if i < len(after2) && before[i] != after2[i] {
			c.Violate("create-changed-contents", "io/float64", "refused Create changed the contents")
			break
		}
	}
	// a new dataset created next to it leaves the first one alone
	if err := io.Create(file, "/g/e", dims, 0, false); err != nil {
		c.Violate("create-error", "io/float64", err.Error())
	}
	after3, _, _ := rawDataset[float64](file, "/g/d")
	for i := range before {
		if before[i] != after3[i] {
			c.Violate("create-changed-contents", "io/float64", "creating another dataset changed this one")
			break
		}
	}
	c.Count("create_calls", 3)
	probeReport(c)
}

// ---------------------------------------------------------------------------
// exhaustive enumeration of the selection helpers

func c08Enumerate(c *core.Ctx) {
	size := c.Idx // 0..8
	c.Begin(map[string]interface{}{"model": "io/sliceSize", "size": size, "start": "0..10", "stop": "0..10", "step": "1..4"})
	c.Class(fmt.Sprintf("enumerate/size%d", size))
	for start := 0; start <= 10; start++ {
		for stop := 0; stop <= 10; stop++ {
			for step := 1; step <= 4; step++ {
				st, sp := minInt(start, size), minInt(stop, size)
				want := 0
				if sp > st {
					want = (sp - st + step - 1) / step
				}
				got := owio.VerifSliceSize([]int{start, stop, step}, size)
				c.Count("slicesize_cases", 1)
				if got != want {
					c.Violate("slicesize", "io/sliceSize", fmt.Sprintf("sliceSize([%d,%d,%d], size %d) = %d, the slice [start:stop:step] has %d elements", start, stop, step, size, got, want), "rounding", fmt.Sprint((sp-st)%step != 0))
				}
				if size > 0 {
					off, str, cnt, blk := owio.VerifMakeHyperslab([][]int{{start, stop, step}, nil}, []int{size, 3})
					ok := off[0] == uint(start) && str[0] == uint(step) && cnt[0] == uint(want) && blk[0] == 1 && off[1] == 0 && str[1] == 1 && cnt[1] == 3 && blk[1] == 1
					c.Count("hyperslab_cases", 1)
					if !ok && len(c.Res.Violations) < 4 {
						c.Violate("hyperslab", "io/makeHyperslab", fmt.Sprintf("makeHyperslab([[%d,%d,%d],nil], [%d,3]) = offset %v stride %v count %v block %v", start, stop, step, size, off, str, cnt, blk))
					}
				}
			}
		}
	}
}

// ---------------------------------------------------------------------------
// metadata methods: GetDatasets / GetGroups / LoadText / Exists

func c08Meta(c *core.Ctx) {
	installProbe()
	file := c08File(c, "meta")
	defer os.Remove(file)
	io := ioBackendFloat64()
	b := backendFloat64()
	nG := c.R.IntRange(1, 4)
	var groups, dsets []string
	names := []string{"alpha", "beta", "gamma", "delta", "eps"}
	for i := 0; i < nG; i++ {
		groups = append(groups, names[i])
	}
	nD := c.R.IntRange(0, 3)
	for i := 0; i < nD; i++ {
		dsets = append(dsets, fmt.Sprintf("d%d", i))
	}
	strs := []string{"GR4J", "Sacramento", "X"}[:c.R.IntRange(1, 3)]
	c.Begin(map[string]interface{}{"model": "io/meta", "groups": groups, "datasets_in_TOP": dsets, "text": strs})
	c.Class(fmt.Sprintf("meta/g%d/d%d/s%d", nG, nD, len(strs)))
	for _, g := range groups {
		if err := io.Write(file, "/TOP/"+g+"/x", b.FromSlice([]float64{1, 2}, []int{2})); err != nil {
			c.Violate("roundtrip-error", "io/meta", err.Error())
			return
		}
	}
	for _, d := range dsets {
		io.Write(file, "/TOP/"+d, b.FromSlice([]float64{3}, []int{1}))
	}
	// fixed-length string dataset, built through the shim tree (as openwater's python side writes /META/models)
	t, err := hdf5.LoadTree(file)
	if err != nil {
		c.Violate("roundtrip-error", "io/meta", err.Error())
		return
	}
	maxLen := 12
	raw := make([]byte, len(strs)*maxLen)
	for i, s := range strs {
		copy(raw[i*maxLen:], s)
	}
	t.PutDataset("/META/models", []int{len(strs)}, hdf5.T_STRING, false, maxLen, raw)
	t.Save(file)
	gg, err := io.Groups(file, "/TOP")
	sort.Strings(gg)
	wantG := append([]string{}, groups...)
	sort.Strings(wantG)
	if err != nil || !equalStrings(gg, wantG) {
		c.Violate("getgroups", "io/meta", fmt.Sprintf("GetGroups(/TOP)=%v,%v expected %v", gg, err, wantG))
	}
	dd, err := io.Datasets(file, "/TOP")
	sort.Strings(dd)
	if err != nil || !equalStrings(dd, dsets) {
		c.Violate("getdatasets", "io/meta", fmt.Sprintf("GetDatasets(/TOP)=%v,%v expected %v", dd, err, dsets))
	}
	tx, err := io.LoadText(file, "/META/models")
	if err != nil || !equalStrings(tx, strs) {
		c.Violate("loadtext", "io/meta", fmt.Sprintf("LoadText=%q,%v expected %q", tx, err, strs))
	}
	if _, err := io.LoadText(file, "/TOP/"+groups[0]+"/x"); err == nil {
		c.Violate("loadtext", "io/meta", "LoadText of a numeric dataset returned no error")
	}
	if !io.Exists(file, "/TOP/"+groups[0]+"/x") || io.Exists(file, "/TOP/nothing/x") || io.Exists(file, "/NOPE") {
		c.Violate("exists", "io/meta", "Exists() wrong for present / absent paths")
	}
	if _, err := io.Load(file+".missing", "/x", nil); err == nil {
		c.Violate("load-missing-file", "io/meta", "Load from a missing file returned no error")
	}
	c.Count("meta_calls", 8)
	probeReport(c)
}

// ---------------------------------------------------------------------------
// concurrent callers: history + executable model (porcupine)

type h5In struct {
	Write bool
	Cells []int   // flat cell indices addressed (row-major within the dataset)
	Vals  []int64 // unique ids written (Write) - nil for loads
}

type h5Out struct {
	Vals []int64
	Err  bool
}

const ccCells = 12

func h5Model() porcupine.Model {
	return porcupine.Model{
		Init: func() interface{} { return [ccCells]int64{} },
		Step: func(state, input, output interface{}) (bool, interface{}) {
			st := state.([ccCells]int64)
			in := input.(h5In)
			out := output.(h5Out)
			if out.Err {
				return false, st // no operation of this workload may fail
			}
			if in.Write {
				for i, cidx := range in.Cells {
					st[cidx] = in.Vals[i]
				}
				return true, st
			}
			if len(out.Vals) != len(in.Cells) {
				return false, st
			}
			for i, cidx := range in.Cells {
				if st[cidx] != out.Vals[i] {
					return false, st
				}
			}
			return true, st
		},
		Equal: func(a, b interface{}) bool { return a.([ccCells]int64) == b.([ccCells]int64) },
		DescribeOperation: func(input, output interface{}) string {
			in := input.(h5In)
			if in.Write {
				return fmt.Sprintf("write cells %v <- %v", in.Cells, in.Vals)
			}
			return fmt.Sprintf("load cells %v -> %v", in.Cells, output.(h5Out).Vals)
		},
	}
}

func runConcurrent(c *core.Ctx, check bool) {
	nClients := c.R.IntRange(4, 8)
	opsPer := c.R.IntRange(3, 6)
	delaySeed := c.R.Uint64()
	rows, cols := 3, 4
	c.Begin(map[string]interface{}{"model": "io/int64", "clients": nClients, "ops_per_client": opsPer, "dataset": []int{rows, cols}, "delay_seed": delaySeed})
	c.Class(fmt.Sprintf("concurrent/c%d/o%d", nClients, opsPer))
	io := ioBackendInt64()
	b := backendInt64()
	file := c08File(c, "cc")
	defer os.Remove(file)
	if err := io.Create(file, "/d", []int{rows, cols}, 0, false); err != nil {
		c.Violate("create-error", "io/int64", err.Error())
		return
	}
	hdf5.SetDelays(delaySeed, 400)
	defer hdf5.SetDelays(0, 0)
	var clock int64
	var mu sync.Mutex
	var ops []porcupine.Operation
	var wg sync.WaitGroup
	start := make(chan struct{})
	// one whole-dataset selection object shared (read-only) by all clients' full loads
	sharedSel := [][]int{{0, rows + 2, 1}, {0, cols + 3, 1}}
	for cl := 0; cl < nClients; cl++ {
		wg.Add(1)
		r := core.NewRand(delaySeed, uint64(cl))
		go func(cl int, r *core.Rand) {
			defer wg.Done()
			<-start
			for k := 0; k < opsPer; k++ {
				kind := r.Intn(10)
				var in h5In
				var out h5Out
				uid := func(i int) int64 { return int64(cl+1)<<20 | int64(k)<<8 | int64(i+1) }
				switch {
				case kind < 4: // WriteSlice of a block
					h, w := r.IntRange(1, rows), r.IntRange(1, cols)
					r0, c0 := r.IntRange(0, rows-h), r.IntRange(0, cols-w)
					vals := make([]int64, h*w)
					for i := range vals {
						vals[i] = uid(i)
					}
					for i := 0; i < h; i++ {
						for j := 0; j < w; j++ {
							in.Cells = append(in.Cells, (r0+i)*cols+c0+j)
						}
					}
					in.Write, in.Vals = true, vals
					arr := b.FromSlice(append([]int64{}, vals...), []int{h, w})
					call := atomic.AddInt64(&clock, 1)
					err := io.WriteSlice(file, "/d", arr, []int{r0, c0})
					ret := atomic.AddInt64(&clock, 1)
					out.Err = err != nil
					mu.Lock()
					ops = append(ops, porcupine.Operation{ClientId: cl, Input: in, Call: call, Output: out, Return: ret})
					mu.Unlock()
				case kind < 5: // whole-dataset Write
					vals := make([]int64, rows*cols)
					for i := range vals {
						vals[i] = uid(i)
						in.Cells = append(in.Cells, i)
					}
					in.Write, in.Vals = true, vals
					arr := b.FromSlice(append([]int64{}, vals...), []int{rows, cols})
					call := atomic.AddInt64(&clock, 1)
					err := io.Write(file, "/d", arr)
					ret := atomic.AddInt64(&clock, 1)
					out.Err = err != nil
					mu.Lock()
					ops = append(ops, porcupine.Operation{ClientId: cl, Input: in, Call: call, Output: out, Return: ret})
					mu.Unlock()
				default: // Load of a selection
					r0, r1 := r.IntRange(0, rows-1), 0
					r1 = r.IntRange(r0+1, rows)
					c0 := r.IntRange(0, cols-1)
					c1 := r.IntRange(c0+1, cols)
					sel := [][]int{{r0, r1, 1}, {c0, c1, 1}}
					if r.Bool(0.3) {
						sel, r0, r1, c0, c1 = sharedSel, 0, rows, 0, cols
					}
					for i := r0; i < r1; i++ {
						for j := c0; j < c1; j++ {
							in.Cells = append(in.Cells, i*cols+j)
						}
					}
					call := atomic.AddInt64(&clock, 1)
					a, err := io.Load(file, "/d", sel)
					ret := atomic.AddInt64(&clock, 1)
					out.Err = err != nil
					if err == nil && a != nil {
						shp := a.Shape()
						for f := 0; f < prod(shp); f++ {
							out.Vals = append(out.Vals, a.Get(unflatten(shp, f)))
						}
					}
					mu.Lock()
					ops = append(ops, porcupine.Operation{ClientId: cl, Input: in, Call: call, Output: out, Return: ret})
					mu.Unlock()
				}
			}
		}(cl, r)
	}
	close(start)
	wg.Wait()
	c.Count("concurrent_histories", 1)
	c.Count("concurrent_ops", float64(len(ops)))
	for _, o := range ops {
		if o.Output.(h5Out).Err {
			c.Violate("concurrent-op-error", "io/int64", "an operation of the concurrent workload returned an error: "+h5Model().DescribeOperation(o.Input, o.Output))
			return
		}
	}
	if !check {
		return
	}
	res, info := porcupine.CheckOperationsVerbose(h5Model(), ops, 30*time.Second)
	_ = info
	switch res {
	case porcupine.Ok:
		c.Tag("porcupine:ok")
		c.Count("porcupine_ok", 1)
	case porcupine.Illegal:
		c.Count("porcupine_illegal", 1)
		desc := ""
		sort.Slice(ops, func(i, j int) bool { return ops[i].Call < ops[j].Call })
		for _, o := range ops {
			desc += fmt.Sprintf("[client %d, %d..%d] %s; ", o.ClientId, o.Call, o.Return, h5Model().DescribeOperation(o.Input, o.Output))
			if len(desc) > 1200 {
				break
			}
		}
		c.Violate("not-linearizable", "io/int64", "the recorded history of WriteSlice/Write/Load calls has no sequential explanation: "+desc)
	default:
		c.Count("porcupine_unknown", 1)
		c.Inconclusive("porcupine timed out on a history of " + fmt.Sprint(len(ops)) + " operations")
	}
}

func c08Concurrent(c *core.Ctx) {
	installProbe()
	runConcurrent(c, true)
	probeReport(c)
}

// in the -race build: no probe, no monitor locks inside the library calls; the shim's canary word
// makes an unordered overlap of a mutating library call with any other call a reported race.
func c08ConcurrentRace(c *core.Ctx) {
	runConcurrent(c, true)
	c.Count("race_build_histories", 1)
}

func cloneSel(sel [][]int) [][]int {
	r := make([][]int, len(sel))
	for i, s := range sel {
		if s != nil {
			r[i] = append([]int{}, s...)
		}
	}
	return r
}

func sameSel(a, b [][]int) bool {
	if len(a) != len(b) {
		return false
	}
	for i := range a {
		if (a[i] == nil) != (b[i] == nil) || !sameShape(a[i], b[i]) {
			return false
		}
	}
	return true
}

// c08SelectionSeq: one selection object reused for a sequence of Loads on datasets of different
// extents (as ow-sim shares one generation slice between references): every Load must return the
// slice that the ORIGINAL selection describes for that dataset.
func c08SelectionSeq(c *core.Ctx) {
	installProbe()
	nd := c.R.IntRange(1, 2)
	nds := c.R.IntRange(2, 4)
	var dsDims [][]int
	for k := 0; k < nds; k++ {
		d := make([]int, nd)
		for i := range d {
			d[i] = c.R.IntRange(1, 9)
		}
		dsDims = append(dsDims, d)
	}
	sel := make([][]int, nd)
	for i := range sel {
		if c.R.Bool(0.2) {
			continue
		}
		start := c.R.IntRange(0, 3)
		sel[i] = []int{start, c.R.IntRange(start+1, 12), c.R.IntRange(1, 3)}
	}
	order := make([]int, c.R.IntRange(2, 6))
	for i := range order {
		order[i] = c.R.Intn(nds)
	}
	c.Begin(map[string]interface{}{"model": "io/float64", "datasets": dsDims, "shared_selection": sel, "load_order": order})
	c.Class(fmt.Sprintf("selection-seq/nd%d/ds%d", nd, nds))
	io, b := ioBackendFloat64(), backendFloat64()
	file := c08File(c, "seq")
	defer os.Remove(file)
	bufs := make([][]float64, nds)
	for k, d := range dsDims {
		bufs[k] = make([]float64, prod(d))
		for i := range bufs[k] {
			bufs[k][i] = float64(1000*k + i + 1)
		}
		if err := io.Write(file, fmt.Sprintf("/d%d", k), b.FromSlice(bufs[k], cpInts(d))); err != nil {
			c.Violate("roundtrip-error", "io/float64", err.Error())
			return
		}
	}
	orig := cloneSel(sel)
	shared := cloneSel(sel) // the object handed to every Load
	for step, k := range order {
		d := dsDims[k]
		loc, cnt, st := make([]int, nd), make([]int, nd), make([]int, nd)
		empty := false
		for i, sl := range orig {
			if sl == nil {
				loc[i], cnt[i], st[i] = 0, d[i], 1
				continue
			}
			a, e := minInt(sl[0], d[i]), minInt(sl[1], d[i])
			n := 0
			if e > a {
				n = (e - a + sl[2] - 1) / sl[2]
			}
			loc[i], cnt[i], st[i] = a, n, sl[2]
			if n == 0 {
				empty = true
			}
		}
		var got Arr[float64]
		var err error
		if !c.Guard("io-panic", "io/float64", func() { got, err = io.Load(file, fmt.Sprintf("/d%d", k), shared) }) {
			return
		}
		c.Count("sequence_loads", 1)
		if empty {
			continue
		}
		if err != nil {
			c.Violate("selection-error", "io/float64", fmt.Sprintf("load %d of dataset %v with selection %v: %v", step, d, orig, err))
			return
		}
		sh := newShadowRoot[float64](0, d)
		copy(sh.st.data, bufs[k])
		want := sh.slice(loc, cnt, st)
		if !sameShape(got.Shape(), cnt) {
			c.Violate("selection-shape", "io/float64", fmt.Sprintf("load %d in the sequence %v: selection %v of dataset shape %v gave shape %v, expected %v (the selection object now reads %v)", step, order, orig, d, got.Shape(), cnt, shared), "sequence", "true")
			return
		}
		wv := want.values()
		for f := range wv {
			if g := got.Get(unflatten(cnt, f)); g != wv[f] {
				c.Violate("selection-values", "io/float64", fmt.Sprintf("load %d in the sequence: element %v is %v, expected %v", step, unflatten(cnt, f), g, wv[f]), "sequence", "true")
				return
			}
		}
	}
	if !sameSel(shared, orig) {
		c.Violate("selection-argument-modified", "io/float64", fmt.Sprintf("the Loads changed the caller's selection from %v to %v", orig, shared))
	}
	probeReport(c)
}

// ---------------------------------------------------------------------------
// concurrent callers where Write CREATES the datasets during the history: a Load must see a
// dataset either absent or with the complete contents of some Write - never a half-made one.

type ccIn struct {
	DS    int
	Write bool
	Vals  []int64
}

type ccOut struct {
	Absent bool
	Vals   []int64
}

type ccState struct {
	Exists bool
	Vals   [6]int64
}

func ccModel() porcupine.Model {
	return porcupine.Model{
		Partition: func(history []porcupine.Operation) [][]porcupine.Operation {
			m := map[int][]porcupine.Operation{}
			for _, o := range history {
				k := o.Input.(ccIn).DS
				m[k] = append(m[k], o)
			}
			var r [][]porcupine.Operation
			for _, v := range m {
				r = append(r, v)
			}
			return r
		},
		Init: func() interface{} { return ccState{} },
		Step: func(state, input, output interface{}) (bool, interface{}) {
			st := state.(ccState)
			in := input.(ccIn)
			out := output.(ccOut)
			if in.Write {
				if out.Absent { // a Write must not fail
					return false, st
				}
				st.Exists = true
				copy(st.Vals[:], in.Vals)
				return true, st
			}
			if out.Absent {
				return !st.Exists, st
			}
			if !st.Exists || len(out.Vals) != len(st.Vals) {
				return false, st
			}
			for i := range st.Vals {
				if out.Vals[i] != st.Vals[i] {
					return false, st
				}
			}
			return true, st
		},
		Equal: func(a, b interface{}) bool { return a.(ccState) == b.(ccState) },
		DescribeOperation: func(input, output interface{}) string {
			in := input.(ccIn)
			out := output.(ccOut)
			if in.Write {
				return fmt.Sprintf("Write(/d%d) <- %v", in.DS, in.Vals)
			}
			if out.Absent {
				return fmt.Sprintf("Load(/d%d) -> absent", in.DS)
			}
			return fmt.Sprintf("Load(/d%d) -> %v", in.DS, out.Vals)
		},
	}
}

func c08ConcurrentCreate(c *core.Ctx) {
	installProbe()
	nClients := c.R.IntRange(4, 8)
	opsPer := c.R.IntRange(3, 6)
	nDS := c.R.IntRange(1, 3)
	delaySeed := c.R.Uint64()
	c.Begin(map[string]interface{}{"model": "io/int64", "clients": nClients, "ops_per_client": opsPer, "datasets_created_by_write": nDS, "delay_seed": delaySeed})
	c.Class(fmt.Sprintf("concurrent-create/c%d/o%d/d%d", nClients, opsPer, nDS))
	io, b := ioBackendInt64(), backendInt64()
	file := c08File(c, "ccn")
	defer os.Remove(file)
	hdf5.SetDelays(delaySeed, 400)
	defer hdf5.SetDelays(0, 0)
	var clock int64
	var mu sync.Mutex
	var ops []porcupine.Operation
	var wg sync.WaitGroup
	start := make(chan struct{})
	for cl := 0; cl < nClients; cl++ {
		wg.Add(1)
		r := core.NewRand(delaySeed, uint64(cl), 77)
		writer := cl%2 == 0
		go func(cl int, r *core.Rand) {
			defer wg.Done()
			<-start
			for k := 0; k < opsPer; k++ {
				ds := r.Intn(nDS)
				in := ccIn{DS: ds}
				var out ccOut
				if writer && r.Bool(0.7) {
					vals := make([]int64, 6)
					for i := range vals {
						vals[i] = int64(cl+1)<<20 | int64(k+1)<<8 | int64(i+1)
					}
					in.Write, in.Vals = true, vals
					call := atomic.AddInt64(&clock, 1)
					err := io.Write(file, fmt.Sprintf("/G/d%d", ds), b.FromSlice(append([]int64{}, vals...), []int{2, 3}))
					ret := atomic.AddInt64(&clock, 1)
					out.Absent = err != nil
					mu.Lock()
					ops = append(ops, porcupine.Operation{ClientId: cl, Input: in, Call: call, Output: out, Return: ret})
					mu.Unlock()
				} else {
					call := atomic.AddInt64(&clock, 1)
					a, err := io.Load(file, fmt.Sprintf("/G/d%d", ds), nil)
					ret := atomic.AddInt64(&clock, 1)
					if err != nil || a == nil {
						out.Absent = true
					} else {
						shp := a.Shape()
						for f := 0; f < prod(shp); f++ {
							out.Vals = append(out.Vals, a.Get(unflatten(shp, f)))
						}
					}
					mu.Lock()
					ops = append(ops, porcupine.Operation{ClientId: cl, Input: in, Call: call, Output: out, Return: ret})
					mu.Unlock()
				}
			}
		}(cl, r)
	}
	close(start)
	wg.Wait()
	c.Count("concurrent_create_histories", 1)
	c.Count("concurrent_ops", float64(len(ops)))
	res, _ := porcupine.CheckOperationsVerbose(ccModel(), ops, 30*time.Second)
	switch res {
	case porcupine.Ok:
		c.Tag("porcupine:ok")
		c.Count("porcupine_ok", 1)
	case porcupine.Illegal:
		c.Count("porcupine_illegal", 1)
		sort.Slice(ops, func(i, j int) bool { return ops[i].Call < ops[j].Call })
		desc := ""
		for _, o := range ops {
			desc += fmt.Sprintf("[client %d, %d..%d] %s; ", o.ClientId, o.Call, o.Return, ccModel().DescribeOperation(o.Input, o.Output))
			if len(desc) > 1400 {
				break
			}
		}
		c.Violate("not-linearizable", "io/int64", "Write/Load history on datasets created by Write has no sequential explanation (a Load saw a dataset that no Write ever produced): "+desc, "workload", "create")
	default:
		c.Count("porcupine_unknown", 1)
		c.Inconclusive("porcupine timed out")
	}
	probeReport(c)
}

// extremeValue returns a value near the end of typ's range that a detour through another numeric type would not
// preserve. int/uint keep small values: their element size on disk is a listed known finding of its own.
func extremeValue[T Num](typ string, i int) T {
	var i64 int64
	var u64 uint64
	var f float64
	switch typ {
	case "int64":
		i64 = 1<<62 + int64(i)*3 + 1
		if i%2 == 0 {
			i64 = -(1 << 53) - int64(i) - 1
		}
		return T(i64)
	case "uint64":
		u64 = 1<<63 + uint64(i)*3 + 1
		return T(u64)
	case "int32":
		i64 = 1<<30 + int64(i) + 1
		if i%2 == 0 {
			i64 = -(1 << 31) + int64(i)
		}
		return T(i64)
	case "uint32":
		u64 = 1<<32 - 1 - uint64(i)
		return T(u64)
	case "float32":
		f = []float64{3e38, -3e38, 1e-45, 16777217, -0.5}[i%5]
		return T(f)
	case "float64":
		f = []float64{1.7e308, -1.7e308, 5e-324, 9007199254740993, -0.5}[i%5]
		return T(f)
	}
	return T(i + 1)
}
