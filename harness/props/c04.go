package props

// C04 - vectorised Run equals independent single-cell runs and touches nothing else.

import (
	"fmt"
	"github.com/flowmatters/openwater-core/sim"
	"math"

	"github.com/flowmatters/openwater-core/data"
	"github.com/flowmatters/openwater-core/data/cdata"
	"verif/core"
)

var c04Shapes = [][3]int{{1, 1, 1}, {2, 2, 2}, {3, 1, 1}, {5, 2, 3}, {7, 3, 2}, {8, 8, 8}, {6, 4, 1}}
var c04Ts = []int{1, 2, 9, 40}

func init() {
	core.Register(&core.Prop{
		ID:    "C04",
		Level: "exploration",
		Rule: "case = (model, cells N, parameter sets P, input blocks B, timesteps T, output padding, init/hot states) drawn from a fixed grid x seeded domains; " +
			"distinct = distinct (model,N,P,B,T,pad,hot) tuples; non-trivial = at least one output or state differs from zero",
		Assumptions: []string{
			"parameters and inputs drawn from the sampling domains of DESIGN.md Appendix A",
			"GR4J/Lag main workload uses cells with equal state width (heterogeneous widths are the separate initstates workload)",
			"bit-exact comparison: same kernel, same floating-point operations",
		},
		Workloads: []core.Workload{
			{Name: "main", Variant: "plain", N: core.Tiered(41*42, 41*7*4*2*12), Run: c04Main},
			// "all cell counts" includes none: a Run over a state array without rows returns and writes nothing
			{Name: "nocells", Variant: "plain", N: core.Tiered(41*2, 41*20), Run: c04NoCells},
			{Name: "initstates", Variant: "plain", N: core.Tiered(180, 3000), Run: c04InitStates},
			// generation-sized runs: the property holds for ALL cell counts; ow-sim hands several thousand cells to one Run.
			// Counts sit on and beside powers of two and round numbers, where batching / chunking logic changes behaviour.
			{Name: "manycells", Variant: "plain", N: core.Tiered(30, 41*15), Run: c04ManyCells, TimeoutS: 300},
			{Name: "cbacked", Variant: "plain", N: core.Tiered(41*9, 41*60), Run: c04CBacked},
		},
	})
}

func c04Main(c *core.Ctx) {
	names := ModelNames()
	model := names[c.Idx%len(names)]
	k := c.Idx / len(names)
	sh := c04Shapes[k%len(c04Shapes)]
	T := c04Ts[(k/len(c04Shapes))%len(c04Ts)]
	pad := (k / (len(c04Shapes) * len(c04Ts))) % 2
	if c.Tier == "quick" {
		T = c04Ts[c.R.Intn(len(c04Ts))]
		pad = c.R.Intn(2)
	}
	hot := c.R.Bool(0.5)
	N, P, B := sh[0], sh[1], sh[2]
	wc := 0
	if needsWidthClass(model) {
		wc = widthClassFor(c.R, N)
	}
	run := GenRun(model, c.R, N, P, B, T, wc)
	if desc := NewModel(model).Description(); len(desc.Dimensions) > 0 && c.R.Bool(0.5) {
		// a wider table in a column that no cell uses (see MRun.Surplus)
		width := func(ps PSet) int {
			w := 0
			for pi, pd := range desc.Parameters {
				if len(pd.Dimensions) > 0 && len(ps[pi]) > w {
					w = len(ps[pi])
				}
			}
			return w
		}
		most := 0
		for _, ps := range run.Sets {
			if w := width(ps); w > most {
				most = w
			}
		}
		for try := 0; try < 30; try++ {
			if ps := GenPSet(model, c.R, genOpts{}); width(ps) > most {
				run.Surplus = []PSet{ps}
				break
			}
		}
	}
	if pad == 1 {
		run.PadCells = c.R.IntRange(0, 2)
		run.PadT = c.R.IntRange(0, 3)
		if run.PadCells == 0 && run.PadT == 0 {
			run.PadT = 1
		}
	}
	var warm *MRun
	if hot {
		// hot states: final states of a warm-up run with other inputs
		warm = GenRun(model, c.R, N, P, B, c.R.IntRange(3, 12), wc)
		warm.Sets = run.Sets
	}
	c.Begin(map[string]interface{}{"model": model, "run": run, "warmup_for_hot_states": warm})
	if c.R.Bool(map[bool]float64{true: 0.4, false: 0.08}[needsWidthClass(model)]) { // (models that derive tables from a parameter: more often)
		HostileHistory(c, model, run.Sets)
	}
	if len(run.Surplus) > 0 {
		c.Tag("surplus-wider-table")
	}
	if hot {
		wo, err := Execute(warm)
		if err == nil {
			run.States = wo.States
		}
	}
	c.Class(fmt.Sprintf("%s/%d-%d-%d/T%d/pad%d/hot%v", model, N, P, B, T, pad, hot))
	// the N-cell run on a model OBJECT that has already been parameterised and run with other values (same number of
	// sets): ApplyParameters must replace everything the previous parameterisation left in the object
	var used sim.TimeSteppingModel
	if c.R.Bool(0.3) {
		used = NewModel(model)
		altP := P
		if c.R.Bool(0.5) {
			altP = c.R.IntRange(1, N+1) // also another NUMBER of parameter sets
		}
		alt := GenRun(model, c.R, N, altP, B, c.R.IntRange(1, 4), wc)
		if pa, err := PrepareOn(used, alt); err == nil {
			pa.Exec()
			c.Tag("object-used-with-other-parameters-before")
		} else {
			used = nil
		}
	}
	checkVectorisedEqualsSingleOn(c, run, "", used)
}

// checkVectorisedEqualsSingle runs the N-cell case and every cell alone; reports differences.
func checkVectorisedEqualsSingle(c *core.Ctx, run *MRun, kindPrefix string) {
	checkVectorisedEqualsSingleOn(c, run, kindPrefix, nil)
}

func checkVectorisedEqualsSingleOn(c *core.Ctx, run *MRun, kindPrefix string, on sim.TimeSteppingModel) {
	model := run.Model
	if on == nil {
		on = NewModel(model)
	}
	p, err := PrepareOn(on, run)
	if err != nil {
		c.Violate(kindPrefix+"prepare", model, err.Error())
		return
	}
	states0 := From2(p.States)
	params0 := From2(p.Params)
	inSh := cpInts(p.Inputs.Shape())
	parSh, stSh, outSh := cpInts(p.Params.Shape()), cpInts(p.States.Shape()), cpInts(p.Outputs.Shape())
	inputs0 := From3(p.Inputs, inSh[0], inSh[1], inSh[2])
	p.Model.Run(p.Inputs, p.States, p.Outputs)
	for _, chk := range []struct {
		name   string
		before []int
		after  []int
	}{{"inputs", inSh, p.Inputs.Shape()}, {"parameters", parSh, p.Params.Shape()}, {"states", stSh, p.States.Shape()}, {"outputs", outSh, p.Outputs.Shape()}} {
		if !sameShape(chk.before, chk.after) {
			c.Violate(kindPrefix+"array-shape-modified", model, fmt.Sprintf("Run changed the shape of the caller's %s array from %v to %v", chk.name, chk.before, chk.after))
			return
		}
	}
	out := p.Collect()

	// inputs / parameters untouched
	if d, bad := diffBits2(params0, From2(p.Params)); bad {
		c.Violate(kindPrefix+"params-modified", model, "parameter matrix changed by Run at "+d)
	}
	if d, bad := diffBits3(inputs0, From3(p.Inputs, inSh[0], inSh[1], inSh[2])); bad {
		c.Violate(kindPrefix+"inputs-modified", model, "input array changed by Run at "+d)
	}
	c.Count("param_and_input_cells_compared", float64(len(params0)*len(run.Sets)+inSh[0]*inSh[1]*inSh[2]))
	if out.PadDirty > 0 {
		c.Violate(kindPrefix+"padding-written", model, fmt.Sprintf("%d padding elements of the output array were written", out.PadDirty))
	}
	nonzero := false
	for i := 0; i < run.N; i++ {
		single := SingleCell(run, i, states0)
		so, err := Execute(single)
		if err != nil {
			c.Violate(kindPrefix+"prepare", model, err.Error())
			return
		}
		if d, bad := diffBits3([][][]float64{out.Out[i]}, so.Out); bad {
			c.Violate(kindPrefix+"cell-output-differs", model, fmt.Sprintf("cell %d of the %d-cell run differs from the same cell run alone at %s (N-cell vs alone)", i, run.N, d))
		}
		if d, bad := diffBits2([][]float64{out.States[i]}, so.States); bad {
			c.Violate(kindPrefix+"cell-state-differs", model, fmt.Sprintf("final state of cell %d of the %d-cell run differs from the same cell run alone at %s", i, run.N, d))
		}
		for _, s := range out.Out[i] {
			for _, v := range s {
				if v != 0 && !math.IsNaN(v) {
					nonzero = true
				}
			}
		}
		if run.States == nil {
			// model-initialised states: the cell alone initialises its own (possibly narrower) state row
			own := SingleCell(run, i, nil)
			oo, err := Execute(own)
			if err == nil {
				if d, bad := diffBits3([][][]float64{out.Out[i]}, oo.Out); bad {
					c.Violate(kindPrefix+"cell-output-differs-own-init", model, fmt.Sprintf("cell %d of the %d-cell run (states from InitialiseStates(%d)) differs from the same cell run alone with its own InitialiseStates(1) at %s", i, run.N, run.N, d))
				}
				for j := range oo.States[0] {
					if j < len(out.States[i]) && !core.BitEq(oo.States[0][j], out.States[i][j]) && !(math.IsNaN(oo.States[0][j]) && math.IsNaN(out.States[i][j])) {
						c.Violate(kindPrefix+"cell-state-differs-own-init", model, fmt.Sprintf("final state %d of cell %d: %v in the %d-cell run, %v when the cell runs alone with its own initial states", j, i, out.States[i][j], run.N, oo.States[0][j]))
						break
					}
				}
			}
			c.Count("cells_compared_with_own_init", 1)
		}
		c.Count("cells_compared", 1)
	}
	if !nonzero && len(p.Desc.States) == 0 {
		c.Trivial()
	}
}

// c04InitStates: InitialiseStates(N) row i must equal InitialiseStates(1) of cell i alone
// (zero padded to the common width) - GR4J and Lag have parameter-dependent widths.
func c04InitStates(c *core.Ctx) {
	model := []string{"GR4J", "Lag"}[c.Idx%2]
	N := c.R.IntRange(2, 6)
	hetero := c.R.Bool(0.7)
	run := &MRun{Model: model, N: N, T: 1}
	wc := 1 + c.R.Intn(13)
	for i := 0; i < N; i++ {
		w := wc
		if hetero {
			w = 0
		}
		run.Sets = append(run.Sets, GenPSet(model, c.R, genOpts{widthClass: w}))
	}
	c.Begin(run)
	m := NewModel(model)
	desc := m.Description()
	m.ApplyParameters(Arr2(FlattenParams(desc, run.Sets)))
	// single-cell references
	var refs [][]float64
	maxW := 0
	for i := 0; i < N; i++ {
		mi := NewModel(model)
		mi.ApplyParameters(Arr2(FlattenParams(desc, []PSet{run.Sets[i]})))
		s := From2(mi.InitialiseStates(1))
		refs = append(refs, s[0])
		if len(s[0]) > maxW {
			maxW = len(s[0])
		}
	}
	widths := map[int]bool{}
	for _, r := range refs {
		widths[len(r)] = true
	}
	het := len(widths) > 1
	c.Class(fmt.Sprintf("%s/N%d/hetero%v", model, N, het))
	kind := "initstates"
	attrs := []string{"hetero", fmt.Sprint(het)}
	var got [][]float64
	ok := c.Guard(kind+"-panic", model, func() { got = From2(m.InitialiseStates(N)) })
	if !ok {
		// re-tag with heterogeneity so that known-finding matching can be precise
		v := &c.Res.Violations[len(c.Res.Violations)-1]
		if v.Attrs == nil {
			v.Attrs = map[string]string{}
		}
		v.Attrs["hetero"] = fmt.Sprint(het)
		return
	}
	for i := 0; i < N; i++ {
		for j := 0; j < maxW; j++ {
			want := 0.0
			if j < len(refs[i]) {
				want = refs[i][j]
			}
			g := math.NaN()
			if i < len(got) && j < len(got[i]) {
				g = got[i][j]
			}
			if !(g == want) {
				c.Violate(kind+"-row-differs", model, fmt.Sprintf("InitialiseStates(%d) row %d col %d = %v, but the cell alone initialises to %v (row widths alone: %v, array width %d)", N, i, j, g, want, rowWidths(refs), widthOf(got)), attrs...)
				return
			}
		}
	}
	c.Count("initstate_rows_compared", float64(N))
}

func rowWidths(r [][]float64) []int {
	w := make([]int, len(r))
	for i := range r {
		w[i] = len(r[i])
	}
	return w
}

func widthOf(a [][]float64) int {
	if len(a) == 0 {
		return 0
	}
	return len(a[0])
}

// c04CBacked: the same N-cell run on C-backed arrays (caller-owned C memory behind guard pages /
// canaries) must equal the Go-backed run bit-for-bit and stay inside the buffers.
func c04CBacked(c *core.Ctx) {
	names := ModelNames()
	model := names[c.Idx%len(names)]
	sh := c04Shapes[c.R.Intn(len(c04Shapes))]
	N, P, B := sh[0], sh[1], sh[2]
	T := c04Ts[c.R.Intn(len(c04Ts))]
	wc := 0
	if needsWidthClass(model) {
		wc = widthClassFor(c.R, N)
	}
	run := GenRun(model, c.R, N, P, B, T, wc)
	if c.R.Bool(0.5) {
		run.PadCells, run.PadT = c.R.IntRange(0, 2), c.R.IntRange(0, 3)
	}
	mode := []string{"guard-after", "guard-before", "malloc"}[c.Idx%3]
	c.Begin(map[string]interface{}{"model": model, "run": run, "c_allocation": mode})
	c.Class(fmt.Sprintf("cbacked/%s/%d-%d-%d/T%d/%s", model, N, P, B, T, mode))
	ref, err := Prepare(run)
	if err != nil {
		c.Violate("prepare", model, err.Error())
		return
	}
	states0 := From2(ref.States)
	refOut := ref.Exec()
	// C-backed copies of all four arrays
	var bufs []*CBuf
	defer func() {
		for _, b := range bufs {
			b.Free()
		}
	}()
	toC := func(vals []float64, dims []int) data.NDFloat64 {
		cb := AllocC(len(vals)*8, mode)
		bufs = append(bufs, cb)
		copy(CSlice[float64](cb, len(vals)), vals)
		return cdata.NewFloat64CArray(cb.Ptr, dims)
	}
	m := NewModel(model)
	prm := FlattenParams(ref.Desc, run.Sets)
	pArr := toC(flatten2(prm), []int{len(prm), len(run.Sets)}).(data.ND2Float64)
	dims := m.FindDimensions(pArr)
	if len(dims) > 0 {
		m.InitialiseDimensions(dims)
	}
	m.ApplyParameters(pArr)
	nst := 0
	if len(states0) > 0 {
		nst = len(states0[0])
	}
	sArr := toC(flatten2(states0), []int{N, nst}).(data.ND2Float64)
	iArr := toC(flatten3(run.Inputs), []int{B, len(ref.Desc.Inputs), T}).(data.ND3Float64)
	oDims := []int{N + run.PadCells, len(ref.Desc.Outputs), T + run.PadT}
	oArr := toC(make([]float64, prod(oDims)), oDims).(data.ND3Float64)
	m.Run(iArr, sArr, oArr)
	for _, b := range bufs {
		if !b.CanaryIntact() {
			c.Violate("canary", model, "bytes outside a caller-owned C buffer were modified by Run")
		}
	}
	// compare
	for i := 0; i < oDims[0]; i++ {
		for j := 0; j < oDims[1]; j++ {
			for k := 0; k < oDims[2]; k++ {
				got := oArr.Get3(i, j, k)
				want := 0.0
				if i < N && k < T {
					want = refOut.Out[i][j][k]
				}
				if !core.BitEq(got, want) && !(math.IsNaN(got) && math.IsNaN(want)) {
					c.Violate("c-backed-output-differs", model, fmt.Sprintf("outputs[%d][%d][%d] on C-backed arrays = %v, on Go-backed arrays %v (array shape %v, run %dx%d)", i, j, k, got, want, oDims, N, T))
					return
				}
			}
		}
	}
	for i := 0; i < N; i++ {
		for j := 0; j < nst; j++ {
			got, want := sArr.Get2(i, j), refOut.States[i][j]
			if !core.BitEq(got, want) && !(math.IsNaN(got) && math.IsNaN(want)) {
				c.Violate("c-backed-state-differs", model, fmt.Sprintf("states[%d][%d] on C-backed arrays = %v, on Go-backed arrays %v", i, j, got, want))
				return
			}
		}
	}
	// inputs and parameters untouched
	if i := core.SameSlice(CSlice[float64](bufs[2], len(flatten3(run.Inputs))), flatten3(run.Inputs)); i >= 0 {
		c.Violate("inputs-modified", model, fmt.Sprintf("C-backed input buffer modified at %d", i))
	}
	if i := core.SameSlice(CSlice[float64](bufs[0], len(flatten2(prm))), flatten2(prm)); i >= 0 {
		c.Violate("params-modified", model, fmt.Sprintf("C-backed parameter buffer modified at %d", i))
	}
	c.Count("c_backed_runs", 1)
}

var c04BigNs = []int{255, 256, 257, 1000, 1023, 1024, 1025, 1500, 2047, 2048, 2049, 3000, 4095, 4097, 5000}

func c04ManyCells(c *core.Ctx) {
	names := ModelNames()
	model := names[(c.Idx*7+int(c.R.Intn(len(names))))%len(names)]
	N := c04BigNs[c.Idx%len(c04BigNs)]
	P, B, T := c.R.IntRange(1, 5), c.R.IntRange(1, 7), c.R.IntRange(1, 3)
	wc := 0
	if needsWidthClass(model) {
		wc = 1 + c.R.Intn(13)
	}
	run := GenRun(model, c.R, N, P, B, T, wc)
	c.Begin(map[string]interface{}{"model": model, "run": run})
	c.Class(fmt.Sprintf("manycells/%s/N%d", model, N))
	c.Tag("manycells")
	c.Max("largest_cell_count_in_one_run", float64(N))
	checkVectorisedEqualsSingle(c, run, "")
}

func c04NoCells(c *core.Ctx) {
	names := ModelNames()
	model := names[c.Idx%len(names)]
	T := c.R.IntRange(1, 8)
	B := c.R.IntRange(0, 2)     // input blocks present although no cell uses them (or none at all)
	rows := []int{0, 0, 2}[c.R.Intn(3)] // output rows: none, or a larger zero-initialised array
	ps := GenPSet(model, c.R, genOpts{widthClass: 1 + c.R.Intn(13)})
	var blocks [][][]float64
	for b := 0; b < B; b++ {
		blocks = append(blocks, GenInputs(model, c.R, T, ps))
	}
	c.Begin(map[string]interface{}{"model": model, "cells": 0, "timesteps": T, "input_blocks": B, "output_rows": rows, "params": ps})
	c.Class(fmt.Sprintf("nocells/%s/B%d/rows%d", model, B, rows))
	m := NewModel(model)
	desc := m.Description()
	params := Arr2(FlattenParams(desc, []PSet{ps}))
	if dims := m.FindDimensions(params); len(dims) > 0 {
		m.InitialiseDimensions(dims)
	}
	m.ApplyParameters(params)
	one := m.InitialiseStates(1)
	states := data.NewArray2DFloat64(0, one.Shape()[1])
	inputs := data.NewArray3DFloat64(B, len(desc.Inputs), T)
	for b := range blocks {
		for j := range blocks[b] {
			for t, v := range blocks[b][j] {
				inputs.Set3(b, j, t, v)
			}
		}
	}
	outputs := data.NewArray3DFloat64(rows, len(desc.Outputs), T)
	if !c.Guard("run-over-no-cells-panics", model, func() { m.Run(inputs, states, outputs) }) {
		return
	}
	for i := 0; i < rows; i++ {
		for j := 0; j < len(desc.Outputs); j++ {
			for t := 0; t < T; t++ {
				if v := outputs.Get3(i, j, t); math.Float64bits(v) != 0 {
					c.Violate("padding-written", model, fmt.Sprintf("a Run over NO cells wrote %v into output[%d][%d][%d] (an output array larger than needed)", v, i, j, t))
					return
				}
			}
		}
	}
	c.Count("runs_over_no_cells", 1)
}
