package props

// C16 - partition, conversion and generation models satisfy their algebraic identities.

import (
	"fmt"
	"math"

	"verif/core"
)

var c16Models = []string{"FixedPartition", "VariablePartition", "RatingCurvePartition", "PartitionDemand", "Input", "Sum", "Gate",
	"ApplyScalingFactor", "DeliveryRatio", "DepthToRate", "EmcDwc", "SednetDissolvedNutrientGeneration", "FixedConcentration",
	"PassLoadIfFlow", "SednetParticulateNutrientGeneration", "BankErosion", "USLEFineSedimentGeneration", "DynamicSednetGully", "DynamicSednetGullyAlt", "ComputeProportion"}

func init() {
	core.Register(&core.Prop{
		ID:    "C16",
		Level: "exploration",
		Rule: "case = (model, parameter set, input series of 10-40 steps); every timestep is one evaluation of the model's identities, plus the two-run linearity relation f(a*x)=a*f(x) for the linear models; " +
			"distinct = distinct (model, branch tags); non-trivial = some input non-zero",
		Assumptions: []string{
			"relative tolerance 1e-12 (1e-9 for products of several unit factors)",
			"rating-table queries lie inside the table; tables have 2..6 strictly increasing knots",
			"gully fine/coarse split by the fine fraction is asserted for years up to GullyEndYear (the activity factor scales the fine part afterwards)",
			"outputs are zero-initialised by the caller (InitialiseOutputs), as everywhere in the library",
		},
		Workloads: []core.Workload{
			{Name: "identities", Variant: "plain", N: func(t string) int { return len(c16Models) * map[string]int{"quick": 600, "thorough": 10000}[t] }, Run: c16Case},
		},
	})
}

func relEq(a, b, rel float64) bool {
	return core.RelClose(a, b, rel, 1e-300)
}

func c16Case(c *core.Ctx) {
	model := c16Models[c.Idx%len(c16Models)]
	T := c.R.IntRange(10, 40)
	run := GenRun(model, c.R, 1, 1, 1, T, 0)
	c.Begin(run)
	if c.R.Bool(0.03) {
		HostileHistory(c, model, run.Sets)
	}
	out, err := ExecuteFor(c, run)
	if err != nil {
		c.Violate("prepare", model, err.Error())
		return
	}
	desc := NewModel(model).Description()
	in := func(name string) []float64 {
		i := indexOf(desc.Inputs, name)
		if i < 0 {
			c.Violate("missing-input", model, "model has no input "+name)
			return make([]float64, T)
		}
		return run.Inputs[0][i]
	}
	o := func(name string) []float64 {
		i := indexOf(desc.Outputs, name)
		if i < 0 {
			c.Violate("missing-output", model, "model has no output "+name)
			return make([]float64, T)
		}
		return out.Out[0][i]
	}
	par := func(name string) float64 {
		i := paramIndex(desc, name)
		if i < 0 {
			c.Violate("missing-parameter", model, "model has no parameter "+name)
			return 0
		}
		return run.Sets[0][i][0]
	}
	bad := func(kind string, t int, format string, a ...interface{}) {
		c.Violate(kind, model, fmt.Sprintf("t=%d: ", t)+fmt.Sprintf(format, a...))
	}
	tags := ""
	tag := func(s string) {
		c.Tag(model + ":" + s)
		tags += s + ","
	}
	nonzero := false
	for _, s := range run.Inputs[0] {
		for _, v := range s {
			if v != 0 {
				nonzero = true
			}
		}
	}
	if !nonzero {
		c.Trivial()
	}
	for _, ser := range out.Out[0] {
		for t, v := range ser {
			if !core.Finite(v) {
				bad("nonfinite-output", t, "output is %v", v)
			}
		}
	}
	const tol = 1e-12
	switch model {
	case "FixedPartition", "VariablePartition", "RatingCurvePartition":
		x, o1, o2 := in("input"), o("output1"), o("output2")
		for t := 0; t < T; t++ {
			if math.Abs(o1[t]+o2[t]-x[t]) > 4e-16*(math.Abs(o1[t])+math.Abs(o2[t])+math.Abs(x[t]))+1e-300 {
				bad("partition-sum", t, "output1+output2=%v+%v=%v but input=%v", o1[t], o2[t], o1[t]+o2[t], x[t])
			}
		}
		switch model {
		case "FixedPartition":
			f := par("fraction")
			for t := 0; t < T; t++ {
				if !relEq(o1[t], x[t]*f, tol) {
					bad("partition-fraction", t, "output1=%v, input*fraction=%v", o1[t], x[t]*f)
				}
			}
		case "VariablePartition":
			f := in("fraction")
			for t := 0; t < T; t++ {
				if !relEq(o1[t], x[t]*f[t], tol) {
					bad("partition-fraction", t, "output1=%v, input*fraction=%v", o1[t], x[t]*f[t])
				}
			}
		case "RatingCurvePartition":
			xs := run.Sets[0][paramIndex(desc, "inputAmount")]
			ps := run.Sets[0][paramIndex(desc, "proportion")]
			for t := 0; t < T; t++ {
				// own interpolation
				fr := math.NaN()
				for i := 0; i+1 < len(xs); i++ {
					if x[t] >= xs[i] && x[t] <= xs[i+1] {
						fr = ps[i] + (x[t]-xs[i])/(xs[i+1]-xs[i])*(ps[i+1]-ps[i])
						break
					}
				}
				if !core.RelClose(o1[t], x[t]*fr, 1e-10, 1e-12) {
					bad("rating-proportion", t, "output1=%v, input*interpolated proportion=%v*%v=%v", o1[t], x[t], fr, x[t]*fr)
				}
			}
			tag(fmt.Sprintf("n%d", len(xs)))
		}
	case "PartitionDemand":
		x, d, of, ex := in("input"), in("demand"), o("outflow"), o("extraction")
		for t := 0; t < T; t++ {
			// rounding scales with the larger of the two parts (a negative demand makes both parts larger than the input)
			if math.Abs(of[t]+ex[t]-x[t]) > 4e-16*(math.Abs(of[t])+math.Abs(ex[t])+math.Abs(x[t]))+1e-300 {
				bad("partition-sum", t, "outflow+extraction=%v but input=%v", of[t]+ex[t], x[t])
			}
			if ex[t] > d[t]+1e-12*math.Abs(d[t]) {
				bad("extraction-exceeds-demand", t, "extraction=%v demand=%v", ex[t], d[t])
			}
			if ex[t] > x[t]+1e-12*math.Abs(x[t]) {
				bad("extraction-exceeds-input", t, "extraction=%v input=%v", ex[t], x[t])
			}
			if of[t] < 0 {
				bad("negative-outflow", t, "outflow=%v", of[t])
			}
			if d[t] < 0 {
				tag("negative-demand")
			}
		}
	case "Input":
		x, y := in("input"), o("output")
		for t := 0; t < T; t++ {
			if !core.BitEq(x[t], y[t]) {
				bad("identity", t, "output=%v input=%v", y[t], x[t])
			}
		}
	case "Sum":
		a, b, y := in("i1"), in("i2"), o("out")
		for t := 0; t < T; t++ {
			if !core.BitEq(a[t]+b[t], y[t]) {
				bad("sum", t, "out=%v i1+i2=%v", y[t], a[t]+b[t])
			}
		}
	case "Gate":
		tr, x, y := in("trigger"), in("incoming"), o("outgoing")
		for t := 0; t < T; t++ {
			want := 0.0
			if tr[t] > 0 {
				want = x[t]
				tag("open")
			} else {
				tag("closed")
			}
			if !core.BitEq(want, y[t]) && !(want == 0 && y[t] == 0) {
				bad("gate", t, "outgoing=%v expected %v (trigger %v)", y[t], want, tr[t])
			}
		}
	case "ApplyScalingFactor", "DeliveryRatio":
		pn := map[string]string{"ApplyScalingFactor": "scale", "DeliveryRatio": "fraction"}[model]
		k := par(pn)
		x, y := in("input"), o("output")
		for t := 0; t < T; t++ {
			if !relEq(y[t], k*x[t], tol) {
				bad("scale", t, "output=%v, %s*input=%v", y[t], pn, k*x[t])
			}
		}
		if k == 0 {
			tag("zero")
		}
	case "DepthToRate":
		dt, area := par("DeltaT"), par("area")
		x, y := in("input"), o("outflow")
		for t := 0; t < T; t++ {
			if !relEq(y[t], x[t]*1e-3*area/dt, 1e-12) {
				bad("depth-to-rate", t, "outflow=%v, input*1e-3*area/dt=%v", y[t], x[t]*1e-3*area/dt)
			}
		}
		if area == 0 {
			tag("zero-area")
		}
	case "EmcDwc", "SednetDissolvedNutrientGeneration":
		var q, s, ql, sl, tot []float64
		var emc, dwc float64
		if model == "EmcDwc" {
			q, s, ql, sl, tot = in("quickflow"), in("baseflow"), o("quickLoad"), o("slowLoad"), o("totalLoad")
			emc, dwc = par("EMC"), par("DWC")
		} else {
			q, s, ql, sl, tot = in("quickflow"), in("slowflow"), o("quickflowConstituent"), o("slowflowConstituent"), o("totalLoad")
			emc, dwc = par("dissConst_EMC"), par("dissConst_DWC")
		}
		for t := 0; t < T; t++ {
			if !relEq(ql[t], q[t]*emc*1e-3, 1e-11) {
				bad("concentration-load", t, "quick load=%v, quickflow*EMC*1e-3=%v", ql[t], q[t]*emc*1e-3)
			}
			if !relEq(sl[t], s[t]*dwc*1e-3, 1e-11) {
				bad("concentration-load", t, "slow load=%v, slowflow*DWC*1e-3=%v", sl[t], s[t]*dwc*1e-3)
			}
			if !core.RelClose(tot[t], ql[t]+sl[t], 1e-12, 1e-300) {
				bad("total-is-sum", t, "total=%v quick+slow=%v", tot[t], ql[t]+sl[t])
			}
		}
		if emc == 0 || dwc == 0 {
			tag("one-zero-concentration")
		}
	case "FixedConcentration":
		f, l := in("flow"), o("load")
		k := par("concentration")
		for t := 0; t < T; t++ {
			if !relEq(l[t], f[t]*k*1e-3, 1e-11) {
				bad("concentration-load", t, "load=%v, flow*concentration*1e-3=%v", l[t], f[t]*k*1e-3)
			}
		}
	case "PassLoadIfFlow":
		f, l, y := in("flow"), in("inputLoad"), o("outputLoad")
		k := par("scalingFactor")
		for t := 0; t < T; t++ {
			want := 0.0
			if f[t] > 0 {
				want = l[t] * k
				tag("flowing")
			} else {
				tag("dry")
			}
			// flows in (0, EFFECTIVELY_ZERO] may be masked: accept either there
			if f[t] > 0 && f[t] < 1e-6 && y[t] == 0 {
				continue
			}
			if !relEq(y[t], want, tol) {
				bad("pass-load-mask", t, "outputLoad=%v expected %v (flow %v, load %v, factor %v)", y[t], want, f[t], l[t], k)
			}
		}
	case "SednetParticulateNutrientGeneration":
		fs, cs, fg, cg, sf := in("fineSedModelFineSheetGeneratedKg"), in("fineSedModelCoarseSheetGeneratedKg"), in("fineSedModelFineGullyGeneratedKg"), in("fineSedModelCoarseGullyGeneratedKg"), in("slowflow")
		qc, sc, tot, hill, gul := o("quickflowConstituent"), o("slowflowConstituent"), o("totalLoad"), o("hillslopeContribution"), o("gullyContribution")
		for t := 0; t < T; t++ {
			wh := (fs[t] + cs[t]) * par("nutSurfSoilConc") * par("Nutrient_Enrichment_Ratio") * par("hillDeliveryRatio") / 100
			wg := (fg[t] + cg[t]) * par("nutSubSoilConc") * par("Nutrient_Enrichment_Ratio_Gully") * par("gullyDeliveryRatio") / 100
			if !relEq(hill[t], wh, 1e-10) {
				bad("hillslope-delivery", t, "hillslopeContribution=%v expected generated*conc*enrichment*ratio/100=%v", hill[t], wh)
			}
			if !relEq(gul[t], wg, 1e-10) {
				bad("gully-delivery", t, "gullyContribution=%v expected %v", gul[t], wg)
			}
			if !relEq(qc[t], hill[t]+gul[t], 1e-12) {
				bad("total-is-sum", t, "quickflowConstituent=%v hill+gully=%v", qc[t], hill[t]+gul[t])
			}
			if !relEq(sc[t], sf[t]*par("nutrientDWC")*1e-3, 1e-11) {
				bad("concentration-load", t, "slowflowConstituent=%v expected %v", sc[t], sf[t]*par("nutrientDWC")*1e-3)
			}
			if !relEq(tot[t], qc[t]+sc[t], 1e-12) {
				bad("total-is-sum", t, "totalLoad=%v quick+slow=%v", tot[t], qc[t]+sc[t])
			}
		}
	case "BankErosion":
		q, v := in("downstreamFlowVolume"), in("totalVolume")
		f, co := o("bankErosionFine"), o("bankErosionCoarse")
		pf := par("soilPercentFine") / 100
		for t := 0; t < T; t++ {
			tot := f[t] + co[t]
			if f[t] < 0 || co[t] < 0 {
				bad("negative-load", t, "fine=%v coarse=%v", f[t], co[t])
			}
			if q[t] <= 0 || v[t] <= 0 || par("longTermAvDailyFlow") <= 0 {
				tag("zero-driver")
				if tot != 0 {
					bad("load-without-driver", t, "erosion %v with flow %v volume %v", tot, q[t], v[t])
				}
				continue
			}
			tag("eroding")
			if !core.RelClose(f[t], tot*pf, 1e-10, 1e-300) || !core.RelClose(co[t], tot*(1-pf), 1e-10, 1e-300) {
				bad("fine-coarse-split", t, "fine=%v coarse=%v total=%v fine fraction=%v", f[t], co[t], tot, pf)
			}
		}
	case "USLEFineSedimentGeneration":
		qf, bf, rain := in("quickflow"), in("baseflow"), in("rainfall")
		qlf, slf, qlc, slc, tf, tc, gf, gc := o("quickLoadFine"), o("slowLoadFine"), o("quickLoadCoarse"), o("slowLoadCoarse"), o("totalFineLoad"), o("totalCoarseLoad"), o("generatedLoadFine"), o("generatedLoadCoarse")
		for t := 0; t < T; t++ {
			if !relEq(tf[t], qlf[t]+slf[t], 1e-12) {
				bad("total-is-sum", t, "totalFineLoad=%v quick+slow=%v", tf[t], qlf[t]+slf[t])
			}
			if !relEq(tc[t], qlc[t]+slc[t], 1e-12) {
				bad("total-is-sum", t, "totalCoarseLoad=%v quick+slow=%v", tc[t], qlc[t]+slc[t])
			}
			if !relEq(slf[t], bf[t]*par("DWC")*1e-3, 1e-11) {
				bad("concentration-load", t, "slowLoadFine=%v expected %v", slf[t], bf[t]*par("DWC")*1e-3)
			}
			if !relEq(qlf[t], gf[t]*par("usleHSDRFine")/100, 1e-10) {
				bad("delivery-ratio", t, "quickLoadFine=%v, generatedLoadFine*HSDR/100=%v", qlf[t], gf[t]*par("usleHSDRFine")/100)
			}
			if !relEq(qlc[t], gc[t]*par("usleHSDRCoarse")/100, 1e-10) {
				bad("delivery-ratio", t, "quickLoadCoarse=%v, generatedLoadCoarse*HSDR/100=%v", qlc[t], gc[t]*par("usleHSDRCoarse")/100)
			}
			if qf[t] <= 0 || rain[t] <= par("RainThreshold") {
				tag("no-erosive-driver")
				if gf[t] != 0 || gc[t] != 0 || qlf[t] != 0 || qlc[t] != 0 {
					bad("load-without-driver", t, "generated fine=%v coarse=%v with quickflow=%v rainfall=%v threshold=%v", gf[t], gc[t], qf[t], rain[t], par("RainThreshold"))
				}
			} else {
				tag("eroding")
			}
			for _, v := range []float64{qlf[t], slf[t], qlc[t], slc[t], gf[t], gc[t]} {
				if v < 0 {
					bad("negative-load", t, "a load is %v", v)
				}
			}
		}
	case "DynamicSednetGully", "DynamicSednetGullyAlt":
		q, yr, ar := in("quickflow"), in("year"), in("AnnualRunoff")
		fl, cl, gf, gc := o("fineLoad"), o("coarseLoad"), o("generatedFine"), o("generatedCoarse")
		pf := par("GullyPercentFine") / 100
		for t := 0; t < T; t++ {
			if !relEq(fl[t], gf[t]*par("sdrFine")/100, 1e-10) {
				bad("delivery-ratio", t, "fineLoad=%v generatedFine*sdrFine/100=%v", fl[t], gf[t]*par("sdrFine")/100)
			}
			if !relEq(cl[t], gc[t]*par("sdrCoarse")/100, 1e-10) {
				bad("delivery-ratio", t, "coarseLoad=%v generatedCoarse*sdrCoarse/100=%v", cl[t], gc[t]*par("sdrCoarse")/100)
			}
			if q[t] == 0 || ar[t] == 0 || yr[t] < par("YearDisturbance") {
				tag("no-driver")
				if fl[t] != 0 || cl[t] != 0 || gf[t] != 0 || gc[t] != 0 {
					bad("load-without-driver", t, "loads %v %v %v %v with quickflow=%v annualRunoff=%v year=%v disturbance=%v", fl[t], cl[t], gf[t], gc[t], q[t], ar[t], yr[t], par("YearDisturbance"))
				}
				continue
			}
			tag("generating")
			if gf[t] < 0 || gc[t] < 0 {
				bad("negative-load", t, "generated fine=%v coarse=%v", gf[t], gc[t])
			}
			if yr[t] <= par("GullyEndYear") {
				tot := gf[t] + gc[t]
				if !core.RelClose(gf[t], tot*pf, 1e-9, 1e-300) {
					bad("fine-coarse-split", t, "generatedFine=%v is not %v of the total %v", gf[t], pf, tot)
				}
			}
		}
	case "ComputeProportion":
		n, d, p := in("numerator"), in("denominator"), o("proportion")
		for t := 0; t < T; t++ {
			want := par("resultOnZeroDenominator")
			if d[t] != 0 {
				want = n[t] / d[t]
			}
			if !relEq(p[t], want, tol) {
				bad("proportion", t, "proportion=%v expected %v", p[t], want)
			}
		}
	}
	c.Class(model + "/" + tags)
	c.Count("steps/"+model, float64(T))

	// two-run linearity f(a*x)=a*f(x) for the models that are linear in their inputs
	switch model {
	case "FixedPartition", "Input", "Sum", "ApplyScalingFactor", "DeliveryRatio", "DepthToRate", "EmcDwc", "SednetDissolvedNutrientGeneration", "FixedConcentration", "SednetParticulateNutrientGeneration":
		a := []float64{2, 0.5, 4, 8}[c.R.Intn(4)] // powers of two: scaling is exact in floating point
		r2 := *run
		r2.Inputs = clone3(run.Inputs)
		for j := range r2.Inputs[0] {
			for t := range r2.Inputs[0][j] {
				r2.Inputs[0][j][t] *= a
			}
		}
		o2, _ := Execute(&r2)
		for j := range o2.Out[0] {
			for t := range o2.Out[0][j] {
				if !relEq(o2.Out[0][j][t], a*out.Out[0][j][t], 1e-13) {
					c.Violate("not-linear", model, fmt.Sprintf("output %s[t=%d]: f(%v*x)=%v but %v*f(x)=%v", desc.Outputs[j], t, a, o2.Out[0][j][t], a, a*out.Out[0][j][t]))
				}
			}
		}
		c.Count("linearity_pairs", 1)
	}
}
