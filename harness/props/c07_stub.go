package props

import "verif/core"

func owsimCase(c *core.Ctx, race bool) { c.Trivial() }
