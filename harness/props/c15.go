package props

// C15 - GR4J computes the published GR4J equations.

import (
	"fmt"
	"math"

	"verif/core"
)

func init() {
	core.Register(&core.Prop{
		ID:    "C15",
		Level: "exploration",
		Rule: "case = (x1,x2,x3,x4, rainfall/PET series, zero or hot initial stores); runoff at every step and final S, R and unit-hydrograph stores compared with an independent implementation of the published equations; " +
			"distinct = distinct (ceil(x4), ceil(2*x4), x4 integer?, hot, x2 sign); non-trivial = some rainfall",
		Assumptions: []string{
			"reference = own transcription of Perrin et al. (2003) / airGR: S-curves with exponent 5/2, time bases x4 and 2*x4, ordinates by differencing at integer t, 90/10 split, exchange x2*(R/x3)^3.5, Qd=max(0,Q1+F)",
			"tolerance 1e-9 relative + 1e-12 absolute + 1e4 x the drift of a reference twin whose rainfall is larger by one part in 1e15 (the equations' own amplification of round-off; zero for practical purposes except in stiff regimes over thousands of steps)",
			"the state vector is read in the order the model's spec declares: s, r, n1, n2, q1[n2], q9[n1]",
			"hot initial stores are final states of a previous run of the same parameter set (any non-negative S<=x1, R, and unit-hydrograph stores)",
		},
		Workloads: []core.Workload{
			{Name: "gr4j", Variant: "plain", N: core.Tiered(900, 150000), Run: func(c *core.Ctx) { c15Run(c, false) }},
			{Name: "gr4j-long", Variant: "plain", N: core.Tiered(40, 1500), Run: func(c *core.Ctx) { c15Run(c, true) }, TimeoutS: 600},
			// several cells with different x4 in one state array (rows padded to the widest), simulated as consecutive
			// windows that carry the states, on Go-backed arrays or caller-owned C buffers; every cell against its own reference
			{Name: "gr4j-multicell", Variant: "plain", N: core.Tiered(360, 20000), Run: c15Multi},
		},
		RequireTags: func(string) []string { return []string{"x4<1", "x4>2", "x4-integer", "hot", "multicell:padded-rows", "multicell:c-memory"} },
	})
}

func gr4jParams(r *core.Rand) (x1, x2, x3, x4 float64) {
	x1 = r.LogRange(1, 1500)
	x2 = r.Range(-10, 5)
	if r.Bool(0.2) {
		x2 = 0
	}
	x3 = r.LogRange(1, 500)
	if r.Bool(0.7) {
		x4 = 0.5 + 0.05*float64(r.Intn(71))
	} else {
		x4 = r.Range(0.5, 4)
	}
	return
}

func c15Run(c *core.Ctx, long bool) {
	x1, x2, x3, x4 := gr4jParams(c.R)
	T := c.R.IntRange(5, 120)
	if long {
		T = c.R.IntRange(2100, 6000) // one call over 6-16 years of daily steps
	}
	rain, pet := rainSeries(c.R, T), petSeries(c.R, T)
	rrPatterns(c.R, rain, pet)
	hot := c.R.Bool(0.4)
	ps := PSet{{x1}, {x2}, {x3}, {x4}}
	run := &MRun{Model: "GR4J", N: 1, T: T, Sets: []PSet{ps}, Inputs: [][][]float64{{rain, pet}}}
	var warmRain, warmPet []float64
	if hot {
		wT := c.R.IntRange(3, 30)
		warmRain, warmPet = rainSeries(c.R, wT), petSeries(c.R, wT)
	}
	c.Begin(map[string]interface{}{"model": "GR4J", "run": run, "warmup_rain": warmRain, "warmup_pet": warmPet})
	if c.R.Bool(0.15) {
		HostileHistory(c, "GR4J", run.Sets)
	}
	n1, n2 := int(math.Ceil(x4)), int(math.Ceil(2*x4))
	isInt := x4 == math.Floor(x4)
	c.Class(fmt.Sprintf("n1=%d/n2=%d/int%v/hot%v/x2sign%d", n1, n2, isInt, hot, sign(x2)))
	if x4 < 1 {
		c.Tag("x4<1")
	}
	if x4 > 2 {
		c.Tag("x4>2")
	}
	if isInt {
		c.Tag("x4-integer")
	}
	ref := newGR4JRef(x1, x2, x3, x4)
	if hot {
		c.Tag("hot")
		w := &MRun{Model: "GR4J", N: 1, T: len(warmRain), Sets: []PSet{ps}, Inputs: [][][]float64{{warmRain, warmPet}}}
		wo, err := Execute(w)
		if err != nil {
			c.Violate("prepare", "GR4J", err.Error())
			return
		}
		run.States = wo.States
		st := wo.States[0]
		// state layout: s, r, n1, n2, q1[n2], q9[n1]
		if len(st) != 4+n1+n2 || int(st[2]) != n1 || int(st[3]) != n2 {
			c.Violate("state-layout", "GR4J", fmt.Sprintf("unexpected state vector %v for x4=%v (expected n1=%d n2=%d)", st, x4, n1, n2))
			return
		}
		ref.S, ref.R = st[0], st[1]
		copy(ref.st1, st[4:4+n2])
		copy(ref.st9, st[4+n2:4+n2+n1])
	}
	out, err := ExecuteFor(c, run)
	if err != nil {
		c.Violate("prepare", "GR4J", err.Error())
		return
	}
	if c.R.Bool(0.25) {
		CheckEmptyRun(c, "GR4J", run.Sets, out.States)
	}
	q := out.Out[0][0]
	anyRain := false
	worst := 0.0
	// two correct implementations that order their floating-point operations differently drift apart slowly over
	// thousands of steps (a small routing store amplifies last-bit differences): 1.2e-9 was seen after 1279 steps
	tolRel := 1e-9
	// ... so the published equations' own sensitivity is measured alongside: a twin of the reference whose rainfall is
	// one part in 1e15 larger. Where the equations amplify that perturbation (a small routing store with a strongly
	// negative exchange coefficient does, by orders of magnitude within a few dozen steps), no implementation can be
	// expected to stay closer to the reference than a generous multiple of what the twin has drifted by so far.
	twin := newGR4JRef(x1, x2, x3, x4)
	twin.S, twin.R = ref.S, ref.R
	copy(twin.st1, ref.st1)
	copy(twin.st9, ref.st9)
	drift := 0.0
	for t := 0; t < T; t++ {
		wt, _ := twin.step(rain[t]*(1+1e-15), pet[t])
		want, _ := ref.step(rain[t], pet[t])
		drift = math.Max(drift, math.Abs(wt-want))
		if drift > 1e-12*math.Max(math.Abs(want), 1e-6) {
			c.Count("steps_where_the_equations_amplify_a_1e-15_perturbation", 1)
		}
		if rain[t] > 0 {
			anyRain = true
		}
		d := math.Abs(q[t] - want)
		if want != 0 {
			worst = math.Max(worst, d/math.Abs(want))
		}
		if !core.RelClose(q[t], want, tolRel, 1e-12+1e4*drift) {
			c.Violate("runoff-differs", "GR4J", fmt.Sprintf("t=%d: runoff %v, published equations give %v (x1=%v x2=%v x3=%v x4=%v, n1=%d n2=%d)", t, q[t], want, x1, x2, x3, x4, n1, n2), "x4class", x4Class(x4))
			break
		}
	}
	c.Max(fmt.Sprintf("worst_rel_runoff_discrepancy/x4bin%.1f", math.Floor(x4*2)/2), worst)
	if !anyRain && !hot {
		c.Trivial()
	}
	c.Count("steps_compared", float64(T))
	driftStores := math.Max(drift, math.Max(math.Abs(twin.S-ref.S), math.Abs(twin.R-ref.R)))
	for i := range ref.st1 {
		driftStores = math.Max(driftStores, math.Abs(twin.st1[i]-ref.st1[i]))
	}
	for i := range ref.st9 {
		driftStores = math.Max(driftStores, math.Abs(twin.st9[i]-ref.st9[i]))
	}
	st := out.States[0]
	if len(st) != 4+n1+n2 {
		c.Violate("state-layout", "GR4J", fmt.Sprintf("final state vector has %d entries, expected %d", len(st), 4+n1+n2))
		return
	}
	if len(c.Res.Violations) == 0 {
		if !core.RelClose(st[0], ref.S, tolRel, 1e-12+1e4*driftStores) {
			c.Violate("store-differs", "GR4J", fmt.Sprintf("final production store %v, reference %v", st[0], ref.S))
		}
		if !core.RelClose(st[1], ref.R, tolRel, 1e-12+1e4*driftStores) {
			c.Violate("store-differs", "GR4J", fmt.Sprintf("final routing store %v, reference %v", st[1], ref.R))
		}
		for i := 0; i < n2; i++ {
			if !core.RelClose(st[4+i], ref.st1[i], tolRel, 1e-12+1e4*driftStores) {
				c.Violate("uh-store-differs", "GR4J", fmt.Sprintf("final UH2 store[%d] %v, reference %v (x4=%v)", i, st[4+i], ref.st1[i], x4), "x4class", x4Class(x4))
				break
			}
		}
		for i := 0; i < n1; i++ {
			if !core.RelClose(st[4+n2+i], ref.st9[i], tolRel, 1e-12+1e4*driftStores) {
				c.Violate("uh-store-differs", "GR4J", fmt.Sprintf("final UH1 store[%d] %v, reference %v (x4=%v)", i, st[4+n2+i], ref.st9[i], x4), "x4class", x4Class(x4))
				break
			}
		}
	}
}

func sign(x float64) int {
	switch {
	case x > 0:
		return 1
	case x < 0:
		return -1
	}
	return 0
}

func x4Class(x4 float64) string {
	switch {
	case x4 < 1:
		return "x4<1"
	case x4 >= 2:
		return "x4>=2"
	}
	return "1<=x4<2"
}

func c15Multi(c *core.Ctx) {
	N := c.R.IntRange(2, 4)
	T := c.R.IntRange(6, 60)
	run := &MRun{Model: "GR4J", N: N, T: T}
	refs := make([]*gr4jRef, N)
	widths := map[int]bool{}
	for i := 0; i < N; i++ {
		x1, x2, x3, x4 := gr4jParams(c.R)
		run.Sets = append(run.Sets, PSet{{x1}, {x2}, {x3}, {x4}})
		rn, pe := rainSeries(c.R, T), petSeries(c.R, T)
		rrPatterns(c.R, rn, pe)
		run.Inputs = append(run.Inputs, [][]float64{rn, pe})
		refs[i] = newGR4JRef(x1, x2, x3, x4)
		widths[int(math.Ceil(x4))+int(math.Ceil(2*x4))] = true
	}
	var cuts []int
	for k := c.R.IntRange(1, 3); k > 0; k-- {
		cuts = append(cuts, c.R.IntRange(1, T-1))
	}
	cmode := ""
	if c.R.Bool(0.5) {
		cmode = []string{"guard-after", "guard-before", "malloc"}[c.R.Intn(3)]
	}
	c.Begin(map[string]interface{}{"model": "GR4J", "run": run, "window_ends": cuts, "segments_on_c_memory": cmode})
	c.Class(fmt.Sprintf("multi/N%d/widths%d/c%v/cuts%d", N, len(widths), cmode != "", len(cuts)))
	if len(widths) > 1 {
		c.Tag("multicell:padded-rows")
	}
	if cmode != "" {
		c.Tag("multicell:c-memory")
	}
	bounds := append([]int{0}, cuts...)
	bounds = append(bounds, T)
	sortInts(bounds)
	var states [][]float64
	for s := 0; s+1 < len(bounds); s++ {
		a, b := bounds[s], bounds[s+1]
		if a == b {
			continue
		}
		seg := &MRun{Model: "GR4J", N: N, T: b - a, Sets: run.Sets, Inputs: sliceT(run.Inputs, a, b), States: states}
		if states == nil {
			p, err := Prepare(seg)
			if err != nil {
				c.Violate("prepare", "GR4J", err.Error())
				return
			}
			seg.States = From2(p.States)
		}
		var so *MOut
		var err error
		if cmode != "" {
			so, _, err = ExecuteC(seg, cmode)
		} else {
			so, err = Execute(seg)
		}
		if err != nil {
			c.Violate("prepare", "GR4J", err.Error())
			return
		}
		for i := 0; i < N; i++ {
			for t := a; t < b; t++ {
				want, _ := refs[i].step(run.Inputs[i][0][t], run.Inputs[i][1][t])
				got := so.Out[i][0][t-a]
				if !core.RelClose(got, want, 1e-9, 1e-12) {
					x4 := run.Sets[i][3][0]
					c.Violate("runoff-differs", "GR4J", fmt.Sprintf("cell %d of %d, t=%d (window %d starting at %d): runoff %v, published equations give %v (x4=%v; x4 of all cells %v)", i, N, t, s, a, got, want, x4, x4s(run)), "x4class", x4Class(x4))
					return
				}
			}
		}
		c.Count("multicell_steps_compared", float64(N*(b-a)))
		states = so.States
	}
}

func x4s(r *MRun) []float64 {
	var v []float64
	for _, s := range r.Sets {
		v = append(v, s[3][0])
	}
	return v
}

func sortInts(a []int) {
	for i := 1; i < len(a); i++ {
		for j := i; j > 0 && a[j] < a[j-1]; j-- {
			a[j], a[j-1] = a[j-1], a[j]
		}
	}
}

// rrPatterns puts, into half of the rainfall/PET series, value patterns that independent draws never form: rainfall equal
// to PET, a steady spell, one series on a plateau, and a wet day of net rain x followed by a dry day of net demand x.
func rrPatterns(r *core.Rand, rain, pet []float64) {
	T := len(rain)
	if T < 4 || !r.Bool(0.5) {
		return
	}
	for k := r.IntRange(1, 4); k > 0; k-- {
		t := r.Intn(T - 3)
		switch r.Intn(5) {
		case 0:
			pet[t] = rain[t]
		case 1:
			w := minInt(T, t+r.IntRange(3, 12))
			for u := t + 1; u < w; u++ {
				rain[u], pet[u] = rain[t], pet[t]
			}
		case 2:
			w := minInt(T, t+r.IntRange(3, 8))
			for u := t + 1; u < w; u++ {
				pet[u] = pet[t]
			}
		case 3:
			x := rain[t] + r.Range(0.5, 20)
			rain[t], pet[t] = x, 0
			rain[t+1], pet[t+1] = 0, x
		default:
			x := r.Range(0.5, 20)
			base := r.Range(0, 5)
			rain[t], pet[t] = base+x, base
			rain[t+1], pet[t+1] = base, base+x
			rain[t+2], pet[t+2] = base+x, base
		}
	}
}
