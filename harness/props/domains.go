package props

// Sampling domains (DESIGN.md Appendix A): the preconditions under which the
// oracles are asserted.  One generator per catalogued model.

import (
	"sync"
	"math"

	"github.com/flowmatters/openwater-core/sim"
	"verif/core"
)

type pmap map[string][]float64

func one(v float64) []float64 { return []float64{v} }

// toPSet orders a name->values map by the model description; unknown parameters get 0.
func toPSet(desc sim.ModelDescription, m pmap) PSet {
	ps := make(PSet, len(desc.Parameters))
	for i, p := range desc.Parameters {
		if v, ok := m[p.Name]; ok {
			ps[i] = v
		} else {
			ps[i] = one(p.Default)
		}
	}
	return ps
}

func pick(r *core.Rand, vals ...float64) float64 { return vals[r.Intn(len(vals))] }

func deltaT(r *core.Rand) float64 { return pick(r, 3600, 86400, 86400) }

// ---------------------------------------------------------------------------
// series generators

func rainSeries(r *core.Rand, T int) []float64 {
	s := make([]float64, T)
	mode := r.Intn(6)
	dry := 0
	for t := range s {
		if dry > 0 {
			dry--
			continue
		}
		switch mode {
		case 0: // steady drizzle
			s[t] = r.Range(0.1, 3)
		case 1: // long dry spells
			if r.Bool(0.05) {
				dry = r.IntRange(5, 60)
			} else if r.Bool(0.3) {
				s[t] = r.Exp(15)
			}
		default:
			if r.Bool(0.02) {
				s[t] = r.Range(200, 500)
			} else if r.Bool(0.3) {
				s[t] = r.Exp(15)
			}
		}
	}
	return s
}

func petSeries(r *core.Rand, T int) []float64 {
	s := make([]float64, T)
	mode := r.Intn(5)
	for t := range s {
		switch mode {
		case 0:
			s[t] = 0
		case 1:
			s[t] = r.Range(4, 12) // PET > rain mostly
		case 2:
			s[t] = r.Range(8, 40) // extreme evaporative demand (arid heat waves, pan factors)
		default:
			s[t] = r.Range(0, 8)
			if r.Bool(0.03) {
				s[t] = r.Range(13, 30)
			}
		}
	}
	return s
}

// flowSeries: non-negative with zero spells, recessions and floods.
func flowSeries(r *core.Rand, T int, scale float64) []float64 {
	s := make([]float64, T)
	q := 0.0
	zero := 0
	for t := range s {
		if zero > 0 {
			zero--
			q = 0
			continue
		}
		if r.Bool(0.06) {
			zero = r.IntRange(1, 8)
			q = 0
			continue
		}
		if r.Bool(0.15) {
			q += r.Exp(scale)
		} else if r.Bool(0.02) {
			q += r.Range(scale, 10*scale)
		} else {
			q *= r.Range(0.5, 0.98)
		}
		s[t] = q
	}
	return s
}

func uniformSeries(r *core.Rand, T int, a, b float64) []float64 {
	s := make([]float64, T)
	for t := range s {
		s[t] = r.Range(a, b)
	}
	return s
}

// volumeSeries: storage volumes incl. zero and values around MINIMUM_VOLUME.
func volumeSeries(r *core.Rand, T int, scale float64) []float64 {
	s := make([]float64, T)
	for t := range s {
		switch r.Intn(8) {
		case 0:
			s[t] = 0
		case 1:
			s[t] = r.Range(0, 0.03)
		default:
			s[t] = r.LogRange(1, scale)
		}
	}
	return s
}

func constSeries(T int, v float64) []float64 {
	s := make([]float64, T)
	for i := range s {
		s[i] = v
	}
	return s
}

// increasing table helpers
func increasingTable(r *core.Rand, n int, start, maxStep float64, strict bool) []float64 {
	t := make([]float64, n)
	v := start
	for i := 0; i < n; i++ {
		if i > 0 {
			st := r.Range(0, maxStep)
			if strict && st < maxStep*1e-3 {
				st = maxStep * 1e-3
			}
			v += st
		}
		t[i] = v
	}
	return t
}

// ---------------------------------------------------------------------------
// parameter sets

type genOpts struct {
	// class: models with variable-width states (GR4J, Lag) keep the same state width for a given class
	widthClass int
	// noDefaultTies: never move a parameter onto its spec default
	noDefaultTies bool
}

// GenPSet draws one parameter set for model from its sampling domain.
func GenPSet(model string, r *core.Rand, o genOpts) PSet {
	m := NewModel(model)
	desc := m.Description()
	p := pmap{}
	switch model {
	case "GR4J":
		p["X1"] = one(r.LogRange(1, 1500))
		if r.Bool(0.25) {
			p["X2"] = one(0)
		} else {
			p["X2"] = one(r.Range(-10, 5))
		}
		p["X3"] = one(r.LogRange(1, 500))
		p["X4"] = one(gr4jX4(r, o.widthClass))
	case "Sacramento":
		p["lzpk"] = one(r.Range(0, 1))
		p["lzsk"] = one(r.Range(0, 1))
		p["uzk"] = one(r.Range(0, 1))
		p["uztwm"] = one(r.Range(5, 125))
		p["uzfwm"] = one(r.Range(5, 75))
		p["lztwm"] = one(r.Range(5, 300))
		p["lzfsm"] = one(r.Range(5, 300))
		p["lzfpm"] = one(r.Range(5, 600))
		p["pfree"] = one(r.Range(0, 1))
		p["rexp"] = one(r.Range(0, 3))
		p["zperc"] = one(r.Range(0, 80))
		p["side"] = one(r.Range(0, 1))
		p["ssout"] = one(pick(r, 0, 0, r.Range(0, 0.5)))
		pct := r.Range(0, 0.3)
		ad := r.Range(0, 0.5)
		p["pctim"] = one(pct)
		p["adimp"] = one(ad)
		p["sarva"] = one(r.Range(0, 0.2))
		p["rserv"] = one(r.Range(0, 1))
		if r.Bool(0.3) {
			p["uh1"], p["uh2"], p["uh3"], p["uh4"], p["uh5"] = one(1), one(0), one(0), one(0), one(0)
		} else {
			p["uh1"] = one(r.Range(0.05, 1))
			p["uh2"] = one(r.Range(0, 1))
			p["uh3"] = one(r.Range(0, 1))
			p["uh4"] = one(r.Range(0, 1))
			p["uh5"] = one(r.Range(0, 1))
		}
	case "Simhyd":
		p["baseflowCoefficient"] = one(r.Range(0, 1))
		p["imperviousThreshold"] = one(r.Range(0, 5))
		p["infiltrationCoefficient"] = one(r.Range(0, 400))
		p["infiltrationShape"] = one(r.Range(0, 10))
		p["interflowCoefficient"] = one(r.Range(0, 1))
		p["perviousFraction"] = one(r.Range(0, 1))
		p["rainfallInterceptionStoreCapacity"] = one(r.Range(0, 5))
		p["rechargeCoefficient"] = one(r.Range(0, 1))
		p["soilMoistureStoreCapacity"] = one(r.Range(1, 500))
	case "Surm":
		p["bfac"] = one(r.Range(0, 1))
		p["coeff"] = one(r.Range(0, 400))
		p["dseep"] = one(r.Range(0, 1))
		p["fcFrac"] = one(r.Range(0, 1))
		p["fimp"] = one(r.Range(0, 1))
		p["rfac"] = one(r.Range(0, 1))
		p["smax"] = one(r.Range(5, 500))
		p["sq"] = one(r.Range(0, 10))
		p["thres"] = one(r.Range(0, 5))
	case "RunoffCoefficient":
		p["coeff"] = one(r.Range(0, 1))
	case "StorageRouting":
		dt := deltaT(r)
		k := r.LogRange(600, 5*86400)
		bias := 0.0
		if r.Bool(0.3) {
			bias = r.Range(0.002, math.Min(0.5, dt/(2*k)))
			if r.Bool(0.3) {
				// the upper part of the range and its edges: exactly on the stability limit 2*k*bias == dt, and bias exactly 1
				// (all weight on the inflow) where the limit allows it
				lim := math.Min(1, dt/(2*k))
				bias = pick(r, lim, lim, r.Range(0.002, lim))
				if lim < 1 && r.Bool(0.3) {
					k = dt / 2 / pick(r, 1, 1, r.Range(1, 4)) // short reaches: the limit lies at or above 1
					bias = pick(r, 1, 1, math.Nextafter(1, 0), r.Range(0.5, 1))
				}
			}
		}
		mPow := 1.0
		if !r.Bool(0.25) {
			mPow = r.Range(0.5, 1)
			if r.Bool(0.2) { // just below the special value 1 (the kernel has a linear shortcut for m == 1)
				mPow = 1 - r.LogRange(1e-9, 1e-3)
			}
		}
		p["InflowBias"] = one(bias)
		p["RoutingConstant"] = one(k)
		p["RoutingPower"] = one(mPow)
		p["area"] = one(pick(r, 0, r.Range(0, 1e4)))
		p["deadStorage"] = one(pick(r, 0, r.Range(0, 1e5)))
		p["DeltaT"] = one(dt)
	case "Muskingum":
		K := r.Range(3600, 5*86400)
		X := r.Range(0, 0.5)
		lo := math.Max(1, 2*K*X)
		hi := math.Min(86400, 2*K*(1-X))
		dt := lo
		if hi > lo {
			dt = r.Range(lo, hi)
			// exactly on the stability limits the property names: 2KX == dt (pure translation of the previous inflow) and
			// dt == 2K(1-X)
			switch r.Intn(8) {
			case 0:
				dt = lo
			case 1:
				dt = hi
			}
		}
		p["K"], p["X"], p["DeltaT"] = one(K), one(X), one(dt)
	case "Lag":
		p["timeLag"] = one(float64(lagFor(r, o.widthClass)))
	case "LumpedConstituentRouting":
		p["X"] = one(r.Range(0, 1))
		p["pointInput"] = one(pick(r, 0, r.Range(0, 1)))
		p["DeltaT"] = one(deltaT(r))
	case "ConstituentDecay":
		p["X"] = one(r.Range(0, 1))
		// 0 = no decay; otherwise from an hour to "practically never" (a constituent that is conservative on any human
		// time scale is given an astronomically long half-life rather than the special value 0)
		p["halfLife"] = one(pick(r, 0, r.Range(3600, 30*86400), r.Range(3600, 30*86400), r.LogRange(1e7, 1e12), pick(r, 1e20, 1e30, 1e300, math.MaxFloat64)))
		p["DeltaT"] = one(deltaT(r))
	case "InstreamFineSediment":
		if r.Bool(0.3) {
			p["bankFullFlow"] = one(0)
		} else {
			p["bankFullFlow"] = one(r.Range(0.5, 50))
		}
		p["fineSedSettVelocityFlood"] = one(r.LogRange(1e-6, 1e-3))
		p["floodPlainArea"] = one(r.Range(0, 1e6))
		if r.Bool(0.25) {
			p["floodPlainArea"] = one(0) // a reach without a floodplain
		}
		p["linkWidth"] = one(r.Range(1, 50))
		p["linkLength"] = one(r.Range(100, 1e4))
		p["linkSlope"] = one(r.LogRange(1e-4, 0.05))
		p["bankHeight"] = one(r.Range(0.5, 5))
		p["propBankHeightForFineDep"] = one(r.Range(0, 1))
		p["sedBulkDensity"] = one(r.Range(1, 2))
		p["manningsN"] = one(r.Range(0.02, 0.1))
		p["fineSedSettVelocity"] = one(r.LogRange(1e-6, 1e-3))
		p["fineSedReMobVelocity"] = one(r.LogRange(1e-6, 1e-3))
		p["durationInSeconds"] = one(86400)
	case "InstreamCoarseSediment":
		p["durationInSeconds"] = one(deltaT(r))
	case "InstreamParticulateNutrient":
		p["particulateNutrientConcentration"] = one(r.Range(0, 1))
		p["soilPercentFine"] = one(r.Range(0, 100))
		p["durationInSeconds"] = one(deltaT(r))
	case "InstreamDissolvedNutrientDecay":
		p["doDecay"] = one(pick(r, 0, 1))
		p["pointSourceLoad"] = one(r.Range(0, 1e4))
		p["linkHeight"] = one(r.Range(0.5, 5))
		p["linkWidth"] = one(r.Range(1, 50))
		p["linkLength"] = one(r.Range(100, 1e4))
		p["uptakeVelocity"] = one(r.Range(0, 1e-3))
		p["durationInSeconds"] = one(deltaT(r))
	case "Storage":
		ps := storagePSet(desc, r, r.IntRange(2, 6))
		if r.Bool(0.2) {
			// a table that starts at a dead storage, with levels above a datum, instead of at (volume 0, level 0): a cold
			// start (volume 0) then lies below the first knot, where every column is held at its first value (area 0 and no
			// release at the first knot, as in storagePSet: with a surface or a release held below the first knot the
			// kernel cannot stop the volume from going negative)
			vi, li := paramIndex(desc, "volumes"), paramIndex(desc, "levels")
			top := ps[vi][len(ps[vi])-1]
			v0, l0 := top*r.Range(0.02, 0.3), pick(r, 0, r.Range(0.5, 300))
			for i := range ps[vi] {
				ps[vi][i] += v0
				ps[li][i] += l0
			}
		}
		return ps
	case "StorageDissolvedDecay":
		p["DeltaT"] = one(deltaT(r))
		p["doStorageDecay"] = one(pick(r, 0, 1))
		p["annualReturnInterval"] = one(r.Range(1, 100))
		p["bankFullFlow"] = one(r.Range(0, 50))
		p["medianFloodResidenceTime"] = one(r.Range(0, 10))
	case "StorageParticulateTrapping":
		p["DeltaT"] = one(deltaT(r))
		p["reservoirCapacity"] = one(r.LogRange(1e5, 1e9))
		p["reservoirLength"] = one(pick(r, 0, r.Range(100, 5e4)))
		p["subtractor"] = one(112)
		p["multiplier"] = one(800)
		p["lengthDischargeFactor"] = one(r.Range(1, 10))
		p["lengthDischargePower"] = one(r.Range(-0.5, -0.1))
	case "StorageTrapAll":
	case "RatingCurvePartition":
		n := r.IntRange(2, 6)
		p["nPts"] = one(float64(n))
		// common end points 0 and 100 for every set, so that any input block is inside any cell's table
		ia := make([]float64, n)
		for i := 1; i < n-1; i++ {
			ia[i] = 100 * (float64(i) + r.Range(-0.4, 0.4)) / float64(n-1)
		}
		ia[n-1] = 100
		p["inputAmount"] = ia
		prop := make([]float64, n)
		for i := range prop {
			prop[i] = r.Range(0, 1)
		}
		p["proportion"] = prop
	case "FixedPartition":
		p["fraction"] = one(r.Range(-0.5, 1.5))
	case "DeliveryRatio":
		p["fraction"] = one(pick(r, 0, 1, r.Range(-10, 10)))
	case "ApplyScalingFactor":
		p["scale"] = one(pick(r, 0, 1, r.Range(-10, 10)))
	case "DepthToRate":
		p["DeltaT"] = one(deltaT(r))
		p["area"] = one(pick(r, 0, r.Range(0, 1e8)))
	case "ComputeProportion":
		p["resultOnZeroDenominator"] = one(r.Range(-5, 5))
	case "DateGenerator":
		y := r.IntRange(1800, 2400)
		mo := r.IntRange(1, 12)
		p["startDate"] = one(float64(r.IntRange(1, daysIn(mo, y))))
		p["startMonth"] = one(float64(mo))
		p["startYear"] = one(float64(y))
	case "ClimateVariables":
		p["elevation"] = one(r.Range(0, 10000))
	case "EmcDwc":
		p["EMC"] = one(pick(r, 0, r.Range(0, 1e4)))
		p["DWC"] = one(pick(r, 0, r.Range(0, 1e4)))
	case "FixedConcentration":
		p["concentration"] = one(pick(r, 0, r.Range(0, 1e4)))
	case "SednetDissolvedNutrientGeneration":
		p["dissConst_EMC"] = one(r.Range(0, 1e4))
		p["dissConst_DWC"] = one(r.Range(0, 1e4))
	case "PassLoadIfFlow":
		p["scalingFactor"] = one(pick(r, 0, 1, r.Range(0, 10)))
	case "SednetParticulateNutrientGeneration":
		p["area"] = one(r.Range(1, 1e8))
		p["nutSurfSoilConc"] = one(r.Range(0, 0.01))
		p["hillDeliveryRatio"] = one(r.Range(0, 100))
		p["Nutrient_Enrichment_Ratio"] = one(r.Range(0, 3))
		p["nutSubSoilConc"] = one(r.Range(0, 0.01))
		p["Nutrient_Enrichment_Ratio_Gully"] = one(r.Range(0, 3))
		p["gullyDeliveryRatio"] = one(r.Range(0, 100))
		p["nutrientDWC"] = one(r.Range(0, 1e4))
		p["Do_P_CREAMS_Enrichment"] = one(pick(r, 0, 1))
	case "BankErosion":
		p["riparianVegPercent"] = one(r.Range(0, 100))
		p["maxRiparianVegEffectiveness"] = one(r.Range(0, 100))
		p["soilErodibility"] = one(r.Range(0, 100))
		p["bankErosionCoeff"] = one(r.Range(0, 1e-4))
		p["linkSlope"] = one(r.LogRange(1e-4, 0.05))
		p["bankFullFlow"] = one(r.Range(0, 50))
		p["bankMgtFactor"] = one(r.Range(0, 1))
		p["sedBulkDensity"] = one(r.Range(1, 2))
		p["bankHeight"] = one(r.Range(0.5, 5))
		p["linkLength"] = one(r.Range(100, 1e4))
		p["dailyFlowPowerFactor"] = one(r.Range(0.5, 2))
		if r.Bool(0.2) {
			// the spec's default (erosion independent of the day's discharge) and weak dependence
			p["dailyFlowPowerFactor"] = one(pick(r, 0, 0, r.Range(0, 0.5)))
		}
		p["longTermAvDailyFlow"] = one(pick(r, 0, r.Range(1, 1e7)))
		p["soilPercentFine"] = one(r.Range(0, 100))
		p["durationInSeconds"] = one(deltaT(r))
	case "DynamicSednetGully", "DynamicSednetGullyAlt":
		p["YearDisturbance"] = one(float64(r.IntRange(1850, 1990)))
		p["GullyEndYear"] = one(float64(r.IntRange(1980, 2030)))
		p["Area"] = one(r.Range(1, 1e8))
		p["averageGullyActivityFactor"] = one(r.Range(0, 3))
		p["GullyAnnualAverageSedimentSupply"] = one(pick(r, 0, r.Range(0, 1e4)))
		p["GullyPercentFine"] = one(r.Range(0, 100))
		p["managementPracticeFactor"] = one(r.Range(0, 1))
		p["longtermRunoffFactor"] = one(pick(r, 0, r.Range(0.1, 100)))
		p["dailyRunoffPowerFactor"] = one(pick(r, 0, r.Range(0.5, 2)))
		p["sdrFine"] = one(r.Range(0, 100))
		p["sdrCoarse"] = one(r.Range(0, 100))
		p["timeStepInSeconds"] = one(deltaT(r))
	case "USLEFineSedimentGeneration":
		p["S"] = one(r.Range(0, 5000))
		p["P"] = one(r.Range(0, 5000))
		p["RainThreshold"] = one(r.Range(0, 12.7))
		p["Alpha"] = one(r.Range(0, 2))
		p["Beta"] = one(r.Range(0.5, 2))
		p["Eta"] = one(r.Range(0, 1))
		p["A1"] = one(r.Range(0.001, 10))
		p["A2"] = one(r.Range(0.001, 10))
		p["A3"] = one(r.Range(0.001, 100))
		p["DWC"] = one(r.Range(0, 1e4))
		p["avK"] = one(r.Range(0, 1))
		p["avLS"] = one(r.Range(0, 10))
		p["avFines"] = one(r.Range(0, 100))
		p["area"] = one(r.Range(1, 1e8))
		p["maxConc"] = one(pick(r, 10, r.LogRange(1, 1e4), 1e9))
		if r.Bool(0.12) {
			p["maxConc"] = one(0) // the low end of its range [0,10000] (and what an unset parameter is): no fine sediment at all
		}
		if r.Bool(0.08) {
			p["area"] = one(0) // the low end of the area range: nothing is generated
		}
		p["usleHSDRFine"] = one(r.Range(0, 100))
		p["usleHSDRCoarse"] = one(r.Range(0, 100))
		p["timeStepInSeconds"] = one(deltaT(r))
	default:
		// models without parameters (Input, Sum, Gate, ...), or unknown new models: defaults
	}
	ps := toPSet(desc, p)
	if !o.noDefaultTies && r.Bool(0.08) {
		// one parameter exactly on the value its spec gives as the default (what a user who leaves it out runs with),
		// where that value lies inside the range this generator draws the parameter from anyway
		ok := defaultsInRange(model)
		var cand []int
		for i, in := range ok {
			if in {
				cand = append(cand, i)
			}
		}
		if len(cand) > 0 {
			i := cand[r.Intn(len(cand))]
			ps[i] = one(desc.Parameters[i].Default)
		}
	}
	if !o.noDefaultTies && r.Bool(0.08) {
		// one parameter exactly on an end of the range its spec documents, where this generator draws up to (within 0.5 %
		// of) that end anyway: continuous draws come arbitrarily close to the end but never sit on it
		ends := rangeEndsInReach(model)
		var cand [][2]float64
		for i, e := range ends {
			for _, v := range e {
				cand = append(cand, [2]float64{float64(i), v})
			}
		}
		if len(cand) > 0 {
			ch := cand[r.Intn(len(cand))]
			ps[int(ch[0])] = one(ch[1])
		}
	}
	return ps
}

var rangeEndCache sync.Map

// rangeEndsInReach: per scalar parameter, the documented range ends that lie within 0.5 % of the span that 400 draws of
// the generator cover (parameters coupled to others excluded as in defaultsInRange).
func rangeEndsInReach(model string) [][]float64 {
	if v, ok := rangeEndCache.Load(model); ok {
		return v.([][]float64)
	}
	desc := NewModel(model).Description()
	lo := make([]float64, len(desc.Parameters))
	hi := make([]float64, len(desc.Parameters))
	for i := range lo {
		lo[i], hi[i] = math.Inf(1), math.Inf(-1)
	}
	rr := core.NewRand(0x72616e6765, 0x656e6473)
	for k := 0; k < 400; k++ {
		ps := GenPSet(model, rr, genOpts{noDefaultTies: true})
		for i := range ps {
			if len(ps[i]) == 1 {
				lo[i] = math.Min(lo[i], ps[i][0])
				hi[i] = math.Max(hi[i], ps[i][0])
			}
		}
	}
	res := make([][]float64, len(desc.Parameters))
	for i, p := range desc.Parameters {
		if len(p.Dimensions) != 0 || !(lo[i] < hi[i]) || !(p.Range[0] < p.Range[1]) {
			continue
		}
		if model == "Muskingum" || p.Name == "DeltaT" || p.Name == "durationInSeconds" || p.Name == "timeStepInSeconds" {
			continue
		}
		span := hi[i] - lo[i]
		for _, e := range p.Range {
			if e >= lo[i]-0.005*span && e <= hi[i]+0.005*span {
				res[i] = append(res[i], e)
			}
		}
	}
	rangeEndCache.Store(model, res)
	return res
}

var defaultRangeCache sync.Map

// defaultsInRange: per scalar parameter of model, whether its spec default lies within the values that 400 draws of
// the generator (fixed PRNG) span - the default is then a legal value that continuous draws never hit exactly.
func defaultsInRange(model string) []bool {
	if v, ok := defaultRangeCache.Load(model); ok {
		return v.([]bool)
	}
	desc := NewModel(model).Description()
	lo := make([]float64, len(desc.Parameters))
	hi := make([]float64, len(desc.Parameters))
	for i := range lo {
		lo[i], hi[i] = math.Inf(1), math.Inf(-1)
	}
	rr := core.NewRand(0x64656661, 0x756c7473)
	for k := 0; k < 400; k++ {
		ps := GenPSet(model, rr, genOpts{noDefaultTies: true})
		for i := range ps {
			if len(ps[i]) == 1 {
				lo[i] = math.Min(lo[i], ps[i][0])
				hi[i] = math.Max(hi[i], ps[i][0])
			}
		}
	}
	res := make([]bool, len(desc.Parameters))
	for i, p := range desc.Parameters {
		res[i] = len(p.Dimensions) == 0 && lo[i] < hi[i] && p.Default >= lo[i] && p.Default <= hi[i]
		// parameters whose legal range depends on the other parameters of the set stay as drawn (the Muskingum trio
		// K, X, DeltaT; timestep lengths, which the stability limits of the routing models are written in)
		if model == "Muskingum" || p.Name == "DeltaT" || p.Name == "durationInSeconds" || p.Name == "timeStepInSeconds" {
			res[i] = false
		}
	}
	defaultRangeCache.Store(model, res)
	return res
}

// gr4jX4: x4 on a dense grid 0.5..4 (+ uniform).  With widthClass>0 all draws share
// ceil(x4) and ceil(2*x4), i.e. the same state width.
func gr4jX4(r *core.Rand, class int) float64 {
	var x4 float64
	if r.Bool(0.7) {
		x4 = 0.5 + 0.05*float64(r.Intn(71))
	} else {
		x4 = r.Range(0.5, 4)
	}
	if class > 0 {
		// classes 1..7: (k/2, (k+1)/2] for k = 1..7 -> same ceil(x4) and ceil(2*x4)
		k := float64((class-1)%7 + 1)
		lo, hi := k/2, (k+1)/2
		f := r.Float64()
		x4 = lo + (hi-lo)*(0.02+0.98*f)
		if x4 > 4 {
			x4 = 4
		}
		if r.Bool(0.15) {
			x4 = hi
		}
	}
	return x4
}

func lagFor(r *core.Rand, class int) int {
	if class > 0 {
		return (class - 1) % 13
	}
	return r.IntRange(0, 12)
}

func daysIn(m, y int) int {
	d := []int{31, 28, 31, 30, 31, 30, 31, 31, 30, 31, 30, 31}[m-1]
	if m == 2 && (y%4 == 0 && (y%100 != 0 || y%400 == 0)) {
		d = 29
	}
	return d
}

// storagePSet: monotone level-volume-area table and release curves with n points.
// areas and releases start at 0 for the empty store (an empty store has no
// surface and releases nothing).
func storagePSet(desc sim.ModelDescription, r *core.Rand, n int) PSet {
	p := pmap{}
	p["DeltaT"] = one(deltaT(r))
	p["nLVA"] = one(float64(n))
	levels := increasingTable(r, n, 0, 5, true)
	vols := make([]float64, n)
	areas := make([]float64, n)
	v := 0.0
	a := 0.0
	for i := 1; i < n; i++ {
		v += r.LogRange(1e4, 1e7)
		a += r.Range(0, 2e5)
		vols[i] = v
		areas[i] = a
	}
	minRel := make([]float64, n)
	maxRel := make([]float64, n)
	mr, xr := 0.0, 0.0
	for i := 1; i < n; i++ {
		mr += r.Range(0, 2) * pick(r, 0, 1)
		if xr < mr {
			xr = mr
		}
		// keep the release curve gentle near empty: release(v) * 6s <= v/4
		xr += r.Range(0, math.Min(30, (vols[i]-vols[i-1])/50.0))
		minRel[i] = mr
		maxRel[i] = xr
	}
	p["levels"], p["volumes"], p["areas"], p["minRelease"], p["maxRelease"] = levels, vols, areas, minRel, maxRel
	return toPSet(desc, p)
}

// ---------------------------------------------------------------------------
// inputs

// GenInputs draws the input block ([input][t]) for one cell of model.
func GenInputs(model string, r *core.Rand, T int, ps PSet) [][]float64 {
	m := NewModel(model)
	desc := m.Description()
	in := make([][]float64, len(desc.Inputs))
	byName := func(n string) int { return indexOf(desc.Inputs, n) }
	set := func(n string, s []float64) {
		if i := byName(n); i >= 0 {
			in[i] = s
		}
	}
	switch model {
	case "GR4J", "Sacramento", "Simhyd", "Surm":
		set("rainfall", rainSeries(r, T))
		set("pet", petSeries(r, T))
	case "RunoffCoefficient":
		set("rainfall", rainSeries(r, T))
	case "StorageRouting":
		set("inflow", flowSeries(r, T, 50))
		set("lateral", flowSeries(r, T, 10))
		set("rainfall", uniformSeries(r, T, 0, 20))
		set("evap", uniformSeries(r, T, 0, 20))
	case "Muskingum":
		set("inflow", flowSeries(r, T, 50))
		set("lateral", flowSeries(r, T, 10))
	case "Lag":
		set("inflow", flowSeries(r, T, 50))
	case "LumpedConstituentRouting", "ConstituentDecay":
		set("inflowLoad", flowSeries(r, T, 5))
		set("lateralLoad", flowSeries(r, T, 1))
		set("inflow", flowSeries(r, T, 50))
		set("outflow", flowSeries(r, T, 50))
		set("storage", volumeSeries(r, T, 1e6))
	case "InstreamFineSediment":
		set("upstreamMass", flowSeries(r, T, pick(r, 0.01, 1, 100)))
		set("lateralMass", flowSeries(r, T, 0.1))
		set("reachLocalMass", flowSeries(r, T, 0.1))
		set("reachVolume", volumeSeries(r, T, 1e6))
		set("outflow", flowSeries(r, T, 30))
	case "InstreamCoarseSediment":
		set("upstreamMass", flowSeries(r, T, 1))
		set("lateralMass", flowSeries(r, T, 0.1))
		set("reachLocalMass", flowSeries(r, T, 0.1))
	case "InstreamParticulateNutrient":
		set("incomingMassUpstream", flowSeries(r, T, 1))
		set("incomingMassLateral", flowSeries(r, T, 0.2))
		set("reachVolume", volumeSeries(r, T, 1e6))
		set("outflow", flowSeries(r, T, 30))
		set("streambankErosion", flowSeries(r, T, 0.5))
		set("lateralSediment", flowSeries(r, T, 0.5))
		set("floodplainDepositionFraction", uniformSeries(r, T, 0, 1))
		cd := uniformSeries(r, T, -0.5, 1)
		set("channelDepositionFraction", cd)
	case "InstreamDissolvedNutrientDecay":
		set("incomingMassUpstream", flowSeries(r, T, 1))
		set("incomingMassLateral", flowSeries(r, T, 0.2))
		set("reachVolume", volumeSeries(r, T, 1e6))
		set("outflow", flowSeries(r, T, 30))
		set("floodplainDepositionFraction", uniformSeries(r, T, 0, 1))
	case "Storage":
		set("rainfall", uniformSeries(r, T, 0, 50))
		set("pet", uniformSeries(r, T, 0, 50))
		set("inflow", flowSeries(r, T, 40))
		set("demand", flowSeries(r, T, 20))
		set("targetMinimumVolume", constSeries(T, 0))
		set("targetMinimumCapacity", constSeries(T, 0))
	case "StorageDissolvedDecay", "StorageTrapAll":
		set("inflowMass", flowSeries(r, T, 5))
		set("inflow", flowSeries(r, T, 50))
		set("outflow", flowSeries(r, T, 50))
		// decay-on kernel divides by the storage volume: keep it positive
		set("storageVolume", uniformSeries(r, T, 1e3, 1e7))
	case "StorageParticulateTrapping":
		set("inflowLoad", flowSeries(r, T, 5))
		set("inflow", flowSeries(r, T, 50))
		set("outflow", flowSeries(r, T, 50))
		set("storage", uniformSeries(r, T, 1e3, 1e7))
	case "RatingCurvePartition":
		tbl := ps[paramIndex(desc, "inputAmount")]
		lo, hi := 0.0, 100.0
		s := make([]float64, T)
		for t := range s {
			switch r.Intn(4) {
			case 0:
				s[t] = tbl[r.Intn(len(tbl))]
			default:
				s[t] = r.Range(lo, hi)
			}
		}
		set("input", s)
	case "VariablePartition":
		set("input", uniformSeries(r, T, -10, 100))
		set("fraction", uniformSeries(r, T, -0.5, 1.5))
	case "PartitionDemand":
		set("input", flowSeries(r, T, 20))
		set("demand", uniformSeries(r, T, -5, 30))
	case "ComputeProportion":
		set("numerator", uniformSeries(r, T, -10, 10))
		d := uniformSeries(r, T, -10, 10)
		for t := range d {
			if r.Bool(0.2) {
				d[t] = 0
			}
		}
		set("denominator", d)
	case "Gate":
		set("trigger", uniformSeries(r, T, -1, 1))
		set("incoming", uniformSeries(r, T, -10, 100))
	case "DateGenerator":
		set("tick", constSeries(T, 0))
	case "ClimateVariables":
		set("dryBulb", uniformSeries(r, T, -40, 55))
		set("humidity", uniformSeries(r, T, 0.01, 100))
	case "EmcDwc":
		set("quickflow", flowSeries(r, T, 10))
		set("baseflow", flowSeries(r, T, 2))
	case "SednetDissolvedNutrientGeneration":
		set("quickflow", flowSeries(r, T, 10))
		set("slowflow", flowSeries(r, T, 2))
	case "FixedConcentration":
		set("flow", flowSeries(r, T, 10))
	case "PassLoadIfFlow":
		fl := flowSeries(r, T, 10)
		if r.Bool(0.3) { // a stream that never quite dries up: strictly positive, down to far below the 1e-8 cut-off
			for t := range fl {
				if fl[t] <= 0 || r.Bool(0.15) {
					fl[t] = r.LogRange(1e-12, 1e-6)
				}
			}
		}
		set("flow", fl)
		ld := flowSeries(r, T, 5)
		if r.Bool(0.5) {
			for t := range ld {
				if ld[t] == 0 {
					ld[t] = r.Range(0.1, 5)
				}
			}
		}
		set("inputLoad", ld)
	case "SednetParticulateNutrientGeneration":
		for _, n := range []string{"fineSedModelFineSheetGeneratedKg", "fineSedModelCoarseSheetGeneratedKg", "fineSedModelFineGullyGeneratedKg", "fineSedModelCoarseGullyGeneratedKg"} {
			set(n, flowSeries(r, T, 100))
		}
		set("slowflow", flowSeries(r, T, 2))
	case "BankErosion":
		set("downstreamFlowVolume", flowSeries(r, T, 30))
		set("totalVolume", volumeSeries(r, T, 1e6))
	case "DynamicSednetGully", "DynamicSednetGullyAlt":
		set("quickflow", flowSeries(r, T, 10))
		y0 := float64(r.IntRange(1840, 2020))
		yr := make([]float64, T)
		for t := range yr {
			yr[t] = y0 + float64(t/3)
		}
		set("year", yr)
		ar := uniformSeries(r, T, 1, 1500)
		for t := range ar {
			if r.Bool(0.1) {
				ar[t] = 0
			}
		}
		set("AnnualRunoff", ar)
		set("annualLoad", uniformSeries(r, T, 0, 1e4))
	case "USLEFineSedimentGeneration":
		set("quickflow", flowSeries(r, T, 10))
		set("baseflow", flowSeries(r, T, 2))
		set("rainfall", rainSeries(r, T))
		set("KLSC", uniformSeries(r, T, 0, 5))
		klsc := in[byName("KLSC")]
		kf := make([]float64, T)
		for t := range kf {
			kf[t] = klsc[t] * r.Range(0, 1)
		}
		if r.Bool(0.15) {
			// a soil without fines: the fine share of the KLSC product is zero throughout / on some days
			all := r.Bool(0.5)
			for t := range kf {
				if all || r.Bool(0.4) {
					kf[t] = 0
				}
			}
		}
		set("KLSC_Fine", kf)
		set("CovOrCFact", uniformSeries(r, T, 0, 1))
		doy := make([]float64, T)
		d0 := r.IntRange(1, 366)
		for t := range doy {
			doy[t] = float64((d0+t-1)%366 + 1)
		}
		set("dayOfYear", doy)
	}
	for i := range in {
		if in[i] == nil {
			in[i] = uniformSeries(r, T, 0, 10)
		}
	}
	// Exact coincidences that independently drawn series never produce but that are perfectly legal: two inputs that
	// a kernel compares or subtracts being EQUAL on a step (demand == available water, rainfall == PET, ...), and a
	// water volume sitting EXACTLY on (or one representable number beside) the documented minimum-volume threshold.
	if pairs, ok := tiePairs[model]; ok && r.Bool(0.3) {
		sel := [][2]string{pairs[r.Intn(len(pairs))]}
		if r.Bool(0.4) {
			sel = pairs // every compared pair tied on the SAME steps (inflow == demand while rainfall == PET ...)
		}
		steps := make([]bool, T)
		for t := range steps {
			steps[t] = r.Bool(0.25)
		}
		for _, pr := range sel {
			a, b := byName(pr[0]), byName(pr[1])
			if a >= 0 && b >= 0 {
				for t := 0; t < T; t++ {
					if steps[t] {
						in[b][t] = in[a][t]
					}
				}
			}
		}
	}
	// Value PATTERNS over consecutive steps that independently drawn values never form: steady conditions (every input
	// repeating bit for bit over a window), one input held constant while the others move, and a value of one step
	// re-appearing on the next step in the input it is compared with (a wet day of net rain x followed by a dry day of
	// net demand exactly x).
	if T >= 4 && len(in) > 0 && !noPatterns[model] {
		if r.Bool(0.25) { // steady window
			t0 := r.Intn(T - 2)
			t1 := minInt(T, t0+r.IntRange(3, 25))
			for i := range in {
				for t := t0 + 1; t < t1; t++ {
					in[i][t] = in[i][t0]
				}
			}
		}
		if r.Bool(0.25) { // one input on a plateau, the others keep moving
			i := r.Intn(len(in))
			t0 := r.Intn(T - 2)
			t1 := minInt(T, t0+r.IntRange(3, 12))
			for t := t0 + 1; t < t1; t++ {
				in[i][t] = in[i][t0]
			}
		}
		if pairs, ok := tiePairs[model]; ok && r.Bool(0.25) { // echo: (a,b)[t] = (x,0), (a,b)[t+1] = (0,x)
			pr := pairs[r.Intn(len(pairs))]
			a, b := byName(pr[0]), byName(pr[1])
			if a >= 0 && b >= 0 {
				for k := r.IntRange(1, 4); k > 0; k-- {
					t := r.Intn(T - 1)
					x := in[a][t]
					if x == 0 {
						x = in[b][t] + 1
					}
					in[a][t], in[b][t] = x, 0
					in[a][t+1], in[b][t+1] = 0, x
				}
			}
		}
	}
	// an input sitting exactly on the parameter (or constant) it is compared with: outflow == bank-full flow,
	// rainfall == erosive-rain threshold, flow == the "effectively zero" constant
	if pt, ok := paramTies[model]; ok && r.Bool(0.5) {
		v := pt.value
		if pt.param != "" {
			v = 0
			if pi := paramIndex(desc, pt.param); pi >= 0 {
				v = ps[pi][0]
			}
		}
		if o := byName(pt.input); o >= 0 && v > 0 {
			for t := 0; t < T; t++ {
				if r.Bool(0.15) {
					in[o][t] = v
				}
			}
		}
	}
	if vo, ok := volumeOutflow[model]; ok && r.Bool(0.35) {
		v, o := byName(vo[0]), byName(vo[1])
		if v >= 0 && o >= 0 {
			for t := 0; t < T; t++ {
				if r.Bool(0.15) {
					in[v][t] = pick(r, minimumVolume, math.Nextafter(minimumVolume, 0), math.Nextafter(minimumVolume, 1), minimumVolume/2)
					in[o][t] = 0
				}
			}
		}
	}
	return in
}

// paramTies: an input and the parameter (or, with param "", the constant) it is compared with.
var paramTies = map[string]struct {
	input, param string
	value        float64
}{
	"InstreamFineSediment":       {"outflow", "bankFullFlow", 0},
	"StorageDissolvedDecay":      {"outflow", "bankFullFlow", 0},
	"USLEFineSedimentGeneration": {"rainfall", "RainThreshold", 0},
	"PassLoadIfFlow":             {"flow", "", 1e-8},
}

// noPatterns: models whose inputs are not free series (calendar inputs, tables walked in order).
var noPatterns = map[string]bool{"DateGenerator": true, "DynamicSednetGully": true, "DynamicSednetGullyAlt": true, "USLEFineSedimentGeneration": true}

// tiePairs: inputs that a kernel compares with or subtracts from one another.
var tiePairs = map[string][][2]string{
	"PartitionDemand": {{"input", "demand"}},
	"GR4J":            {{"rainfall", "pet"}},
	"Sacramento":      {{"rainfall", "pet"}},
	"Simhyd":          {{"rainfall", "pet"}},
	"Surm":            {{"rainfall", "pet"}},
	"StorageRouting":  {{"rainfall", "evap"}, {"inflow", "lateral"}},
	"Muskingum":       {{"inflow", "lateral"}},
	"Storage":         {{"inflow", "demand"}, {"rainfall", "pet"}},
	"Gate":            {{"trigger", "incoming"}},
	"LumpedConstituentRouting": {{"inflow", "outflow"}},
	"ConstituentDecay":         {{"inflow", "outflow"}},
	"StorageDissolvedDecay":    {{"inflow", "outflow"}},
	"StorageTrapAll":           {{"inflow", "outflow"}},
	"StorageParticulateTrapping": {{"inflow", "outflow"}},
}

// volumeOutflow: (water volume, outflow) inputs of the models that flush below MINIMUM_VOLUME; the working volume is
// outflow*dt + volume, so the outflow is zeroed on the threshold steps.
var volumeOutflow = map[string][2]string{
	"LumpedConstituentRouting":       {"storage", "outflow"},
	"ConstituentDecay":               {"storage", "outflow"},
	"InstreamFineSediment":           {"reachVolume", "outflow"},
	"InstreamParticulateNutrient":    {"reachVolume", "outflow"},
	"InstreamDissolvedNutrientDecay": {"reachVolume", "outflow"},
}

// GenRun draws a complete multi-cell run: P parameter sets, B input blocks.
func GenRun(model string, r *core.Rand, N, P, B, T int, widthClass int) *MRun {
	run := &MRun{Model: model, N: N, T: T}
	for i := 0; i < P; i++ {
		run.Sets = append(run.Sets, GenPSet(model, r, genOpts{widthClass: widthClass}))
	}
	for b := 0; b < B; b++ {
		run.Inputs = append(run.Inputs, GenInputs(model, r, T, run.Sets[b%P]))
	}
	return run
}

// needsWidthClass: models whose state width depends on a parameter.
func needsWidthClass(model string) bool { return model == "GR4J" || model == "Lag" }

// Stateful models (those with at least one state in their description).
func statefulModels() []string {
	var res []string
	for _, n := range ModelNames() {
		if len(NewModel(n).Description().States) > 0 {
			res = append(res, n)
		}
	}
	return res
}

// widthClassFor: for models whose state width depends on a parameter (GR4J, Lag) half of the
// multi-cell cases use cells of different widths (class 0: rows are padded to the widest cell),
// the others one common width class.
func widthClassFor(r *core.Rand, cells int) int {
	if cells > 1 && r.Bool(0.5) {
		return 0
	}
	return 1 + r.Intn(13)
}

// sacramentoAdimcStress turns a generated Sacramento cell into the regime in which the additional impervious store falls
// below the upper tension store: a small lower tension store, a large upper free-water store that big storms fill, and
// heat-wave PET right after the storms (C10's first stress regime; also used where states are carried across calls).
func sacramentoAdimcStress(r *core.Rand, ps PSet, in [][]float64) {
	desc := NewModel("Sacramento").Description()
	set := func(n string, v float64) { ps[paramIndex(desc, n)] = []float64{v} }
	set("lztwm", r.Range(5, 12))
	set("uzfwm", r.Range(40, 75))
	set("uztwm", r.Range(30, 125))
	set("adimp", r.Range(0.05, 0.5))
	if r.Bool(0.6) {
		set("uzk", r.Range(0, 0.3))
		set("lzpk", r.Range(0, 0.05))
		set("lzsk", r.Range(0, 0.3))
	}
	iR, iP := indexOf(desc.Inputs, "rainfall"), indexOf(desc.Inputs, "pet")
	T := len(in[iR])
	for t := 0; t < T; t++ {
		in[iR][t], in[iP][t] = 0, r.Range(0, 8)
		if r.Bool(0.3) {
			in[iR][t] = r.Exp(15)
		}
	}
	for t := r.Intn(10); t+1 < T; t += r.IntRange(3, 15) {
		in[iR][t] = r.Range(100, 500)
		in[iP][t+1] = r.Range(20, 40)
		if r.Bool(0.5) {
			in[iR][t+1] = r.Range(0, 40)
		}
	}
}
