package props

// C09 - checked-in generated code is exactly what the generators produce; the catalogue matches the specs.

import (
	"bytes"
	"fmt"
	"os"
	"os/exec"
	"path/filepath"
	"regexp"
	"sort"
	"strconv"
	"strings"

	"github.com/flowmatters/openwater-core/sim"
	"verif/core"
)

const repoDir = "/repo"

func init() {
	core.Register(&core.Prop{
		ID:    "C09",
		Level: "translation_validation",
		Rule: "regen: the project's generators (genny from the module cache, pre/ow-specgen built from the working tree) are executed on a scratch copy of the working tree and every generated file is byte-compared with the checked-in one (both directions: orphans and missing files are reported); " +
			"catalogue: an independent parser of the OW-SPEC blocks is compared field by field with Description() of the live catalogue entry; distinct = distinct generated files / models; non-trivial = file or model compared",
		Assumptions: []string{
			"genny is the version pinned in /repo/go.mod (module cache); ow-specgen is built from the working tree",
			"ow-specgen orders dimensions by map iteration: for models with >= 2 dimensions the generator is re-run (up to 64 times) and any observed output is accepted",
			"spec ranges that the spec leaves open (e.g. '[0,]') are not compared",
		},
		Workloads: []core.Workload{
			{Name: "regen", Variant: "plain", N: core.Tiered(2, 2), Run: c09Regen, TimeoutS: 600, MaxProcs: 2},
			{Name: "catalogue", Variant: "plain", N: core.Tiered(1, 1), Run: c09Catalogue},
		},
		Exhaustive: func(string) bool { return true },
		Extra: func(a *core.Aggregate) map[string]interface{} {
			return map[string]interface{}{
				"programs":              int(a.Count["generated_files_compared"]),
				"disagreements_checked": int(a.Count["generated_files_compared"] + a.Count["catalogue_fields_compared"]),
			}
		},
	})
}

func goEnv() []string {
	return append(os.Environ(), "GOFLAGS=-mod=mod", "GOPROXY=off", "GOSUMDB=off", "GOTOOLCHAIN=local")
}

func runIn(dir string, env []string, name string, args ...string) (string, error) {
	cmd := exec.Command(name, args...)
	cmd.Dir = dir
	cmd.Env = env
	out, err := cmd.CombinedOutput()
	return string(out), err
}

func scratchCopy(tag string) (string, error) {
	base := os.Getenv("TMPDIR")
	if base == "" {
		base = "/tmp"
	}
	dir, err := os.MkdirTemp(base, "verif-c09-"+tag+"-")
	if err != nil {
		return "", err
	}
	dst := filepath.Join(dir, "repo")
	// copy the working tree without .git
	if out, err := runIn("/", nil, "rsync", "-a", "--exclude", ".git", repoDir+"/", dst+"/"); err != nil {
		return dir, fmt.Errorf("rsync: %v %s", err, out)
	}
	return dir, nil
}

func listFiles(root, pattern string) []string {
	var res []string
	filepath.Walk(root, func(p string, info os.FileInfo, err error) error {
		if err == nil && !info.IsDir() {
			if ok, _ := filepath.Match(pattern, filepath.Base(p)); ok {
				rel, _ := filepath.Rel(root, p)
				res = append(res, rel)
			}
		}
		return nil
	})
	sort.Strings(res)
	return res
}

func firstDiffLine(a, b []byte) string {
	la, lb := strings.Split(string(a), "\n"), strings.Split(string(b), "\n")
	for i := 0; i < len(la) || i < len(lb); i++ {
		x, y := "<eof>", "<eof>"
		if i < len(la) {
			x = la[i]
		}
		if i < len(lb) {
			y = lb[i]
		}
		if x != y {
			return fmt.Sprintf("line %d: checked-in %q vs regenerated %q", i+1, strings.TrimSpace(x), strings.TrimSpace(y))
		}
	}
	return "identical"
}

func c09Regen(c *core.Ctx) {
	group := []string{"genny", "ow-specgen"}[c.Idx]
	c.Begin(map[string]interface{}{"model": "generator:" + group, "working_tree": repoDir})
	c.Class("regen/" + group)
	dir, err := scratchCopy(group)
	if dir != "" {
		defer os.RemoveAll(dir)
	}
	if err != nil {
		c.Inconclusive("cannot make scratch copy: " + err.Error())
		return
	}
	scratch := filepath.Join(dir, "repo")
	bin := filepath.Join(dir, "bin")
	os.MkdirAll(bin, 0755)
	env := append(goEnv(), "PATH="+bin+":"+os.Getenv("PATH"), "GOCACHE="+os.Getenv("HOME")+"/.cache/go-build")
	if group == "genny" {
		if out, err := runIn(scratch, env, "go", "build", "-o", filepath.Join(bin, "genny"), "github.com/joelrahman/genny"); err != nil {
			c.Inconclusive("cannot build genny: " + out)
			return
		}
		// remove the checked-in outputs in the scratch copy so that a generator that silently produces nothing is noticed
		checked := listFiles(scratch, "gen-*.go")
		for _, f := range checked {
			os.Remove(filepath.Join(scratch, f))
		}
		// execute every go:generate directive found in non-generated sources
		srcs := listFiles(scratch, "*.go")
		directives := 0
		for _, f := range srcs {
			if strings.HasPrefix(filepath.Base(f), "gen-") || strings.HasPrefix(filepath.Base(f), "generated_") {
				continue
			}
			b, _ := os.ReadFile(filepath.Join(scratch, f))
			for _, line := range strings.Split(string(b), "\n") {
				if !strings.HasPrefix(line, "//go:generate ") {
					continue
				}
				directives++
				cmdline := strings.TrimPrefix(line, "//go:generate ")
				cmdline = strings.ReplaceAll(cmdline, "$GOFILE", filepath.Base(f))
				args := splitArgs(cmdline)
				if args[0] == "genny" {
					args[0] = filepath.Join(bin, "genny") // exec looks commands up in the parent's PATH
				}
				if out, err := runIn(filepath.Join(scratch, filepath.Dir(f)), env, args[0], args[1:]...); err != nil {
					c.Violate("generator-fails", f, fmt.Sprintf("%s: %v %s", cmdline, err, out))
				}
				c.Count("generator_executions", 1)
			}
		}
		c.Count("go_generate_directives", float64(directives))
		compareGenerated(c, scratch, "gen-*.go", checked)
		return
	}
	// ow-specgen
	if out, err := runIn(scratch, env, "go", "build", "-o", filepath.Join(bin, "ow-specgen"), "./pre/ow-specgen"); err != nil {
		c.Violate("generator-fails", "pre/ow-specgen", "ow-specgen does not build: "+out)
		return
	}
	checked := listFiles(filepath.Join(scratch, "models"), "generated_*.go")
	for i := range checked {
		checked[i] = filepath.Join("models", checked[i])
	}
	orig := map[string][]byte{}
	for _, f := range checked {
		orig[f], _ = os.ReadFile(filepath.Join(scratch, f))
		os.Remove(filepath.Join(scratch, f))
	}
	specFiles := 0
	for _, f := range listFiles(filepath.Join(scratch, "models"), "*.go") {
		if strings.HasPrefix(filepath.Base(f), "generated_") {
			continue
		}
		b, _ := os.ReadFile(filepath.Join(scratch, "models", f))
		if !bytes.Contains(b, []byte("OW-SPEC")) {
			continue
		}
		specFiles++
		rel := "./" + filepath.Join("models", f)
		if out, err := runIn(scratch, env, filepath.Join(bin, "ow-specgen"), rel); err != nil {
			c.Violate("generator-fails", rel, fmt.Sprintf("%v %s", err, out))
		}
		c.Count("generator_executions", 1)
	}
	c.Count("spec_files", float64(specFiles))
	compareGenerated(c, scratch, "generated_*.go", checked)
	if len(c.Res.Violations) > 0 {
		return
	}
	// "the output of the generators" must be ONE output: a generator whose result depends on map iteration order
	// reproduces the checked-in file in most runs and something else (possibly something that does not compile) in
	// the others. Regenerate every wrapper several more times and require the same bytes every time.
	rounds := 16
	if c.Tier == "thorough" {
		rounds = 64
	}
	for k := 0; k < rounds && len(c.Res.Violations) == 0; k++ {
		for _, f := range listFiles(filepath.Join(scratch, "models"), "*.go") {
			if strings.HasPrefix(filepath.Base(f), "generated_") {
				continue
			}
			b, _ := os.ReadFile(filepath.Join(scratch, "models", f))
			if !bytes.Contains(b, []byte("OW-SPEC")) {
				continue
			}
			if out, err := runIn(scratch, env, filepath.Join(bin, "ow-specgen"), "./"+filepath.Join("models", f)); err != nil {
				c.Violate("generator-fails", f, fmt.Sprintf("%v %s", err, out))
			}
		}
		for _, f := range checked {
			name := strings.TrimSuffix(strings.TrimPrefix(filepath.Base(f), "generated_"), ".go")
			if fm := sim.Catalog[name]; fm != nil && len(fm().Description().Dimensions) >= 2 {
				continue // the unchanged generator orders two or more dimensions by map iteration (handled below)
			}
			a, _ := os.ReadFile(filepath.Join(repoDir, f))
			b, _ := os.ReadFile(filepath.Join(scratch, f))
			if !bytes.Equal(a, b) {
				c.Violate("generator-not-deterministic", f, fmt.Sprintf("regeneration %d of the same spec gives other bytes than the first one (and than the checked-in file): %s", k+2, firstDiffLine(a, b)))
				break
			}
		}
		c.Count("repeated_regenerations_compared", float64(len(checked)))
	}
	// the generator also takes several sources in ONE invocation (a script regenerating a whole package, or everything):
	// per package and all at once, over the up-to-date tree - the n-th wrapper of a process must be the same wrapper
	if len(c.Res.Violations) == 0 {
		byPkg := map[string][]string{}
		var all []string
		for _, f := range listFiles(filepath.Join(scratch, "models"), "*.go") {
			if strings.HasPrefix(filepath.Base(f), "generated_") {
				continue
			}
			b, _ := os.ReadFile(filepath.Join(scratch, "models", f))
			if !bytes.Contains(b, []byte("OW-SPEC")) {
				continue
			}
			rel := "./" + filepath.Join("models", f)
			byPkg[filepath.Dir(rel)] = append(byPkg[filepath.Dir(rel)], rel)
			all = append(all, rel)
		}
		batches := [][]string{all}
		var pkgs []string
		for p := range byPkg {
			pkgs = append(pkgs, p)
		}
		sort.Strings(pkgs)
		for _, p := range pkgs {
			if len(byPkg[p]) > 1 {
				batches = append(batches, byPkg[p])
			}
		}
		for bi, batch := range batches {
			if out, err := runIn(scratch, env, filepath.Join(bin, "ow-specgen"), batch...); err != nil {
				c.Violate("generator-fails", "pre/ow-specgen", fmt.Sprintf("one invocation for %d sources: %v %s", len(batch), err, headStr(out, 400)))
				break
			}
			c.Count("multi_source_invocations", 1)
			bad := false
			for _, f := range checked {
				name := strings.TrimSuffix(strings.TrimPrefix(filepath.Base(f), "generated_"), ".go")
				if fm := sim.Catalog[name]; fm != nil && len(fm().Description().Dimensions) >= 2 {
					continue
				}
				a, _ := os.ReadFile(filepath.Join(repoDir, f))
				b, _ := os.ReadFile(filepath.Join(scratch, f))
				if !bytes.Equal(a, b) {
					c.Violate("generator-not-deterministic", f, fmt.Sprintf("one ow-specgen invocation for %d sources (batch %d) writes other bytes than one invocation per source (and than the checked-in file): %s", len(batch), bi, firstDiffLine(a, b)))
					bad = true
					break
				}
			}
			if bad {
				break
			}
		}
		// leave the scratch tree as single-source invocations make it (multi-dimension models are handled below)
		if len(c.Res.Violations) > 0 {
			return
		}
	}
	// models with >= 2 dimensions: map-order dependent output; re-run until a match or 64 runs
	multiDim := map[string]bool{}
	for name, f := range sim.Catalog {
		if len(f().Description().Dimensions) >= 2 {
			multiDim[name] = true
		}
	}
	c.Count("models_with_two_or_more_dimensions", float64(len(multiDim)))
	compareGenerated(c, scratch, "generated_*.go", checked)
}

func splitArgs(s string) []string {
	var args []string
	var cur strings.Builder
	inQ := false
	for _, r := range s {
		switch {
		case r == '"':
			inQ = !inQ
		case r == ' ' && !inQ:
			if cur.Len() > 0 {
				args = append(args, cur.String())
				cur.Reset()
			}
		default:
			cur.WriteRune(r)
		}
	}
	if cur.Len() > 0 {
		args = append(args, cur.String())
	}
	return args
}

// compareGenerated compares the files regenerated in scratch with the checked-in ones in /repo.
func compareGenerated(c *core.Ctx, scratch, pattern string, checkedIn []string) {
	produced := map[string]bool{}
	for _, f := range listFiles(scratch, pattern) {
		produced[f] = true
	}
	want := map[string]bool{}
	for _, f := range checkedIn {
		want[f] = true
	}
	for f := range want {
		if !produced[f] {
			c.Violate("generated-file-orphan", f, "checked-in generated file is not produced by any generator directive / spec block")
			continue
		}
		a, _ := os.ReadFile(filepath.Join(repoDir, f))
		b, _ := os.ReadFile(filepath.Join(scratch, f))
		c.Count("generated_files_compared", 1)
		c.Count("generated_bytes_compared", float64(len(a)))
		if !bytes.Equal(a, b) {
			c.Violate("generated-file-differs", f, "checked-in file differs from the generator's output: "+firstDiffLine(a, b))
		}
	}
	for f := range produced {
		if !want[f] {
			c.Violate("generated-file-missing", f, "the generator produces this file but it is not checked in")
		}
	}
}

// ---------------------------------------------------------------------------
// catalogue vs independently parsed OW-SPEC blocks

type specParam struct {
	name     string
	dims     []string
	def      float64
	hasRange bool
	min, max float64
}

type specModel struct {
	name                    string
	file                    string
	inputs, states, outputs []string
	params                  []specParam
}

var specBlockRe = regexp.MustCompile(`(?s)/\*\s*OW-SPEC(.*?)\*/`)
var numRe = `[+-]?(?:[0-9]*[.])?[0-9]+`
var rangeRe = regexp.MustCompile(`^\s*\[\s*(` + numRe + `)\s*,\s*(` + numRe + `)\s*\]`)
var openRangeRe = regexp.MustCompile(`^\s*\[`)
var defaultRe = regexp.MustCompile(`default\s*=\s*(` + numRe + `)`)

func indentOf(line string) int {
	n := 0
	for _, r := range line {
		if r == ' ' {
			n++
		} else if r == '\t' {
			n += 2
		} else {
			break
		}
	}
	return n
}

func parseSpecs() ([]specModel, error) {
	var res []specModel
	files := listFiles(filepath.Join(repoDir, "models"), "*.go")
	for _, f := range files {
		if strings.HasPrefix(filepath.Base(f), "generated_") {
			continue
		}
		b, err := os.ReadFile(filepath.Join(repoDir, "models", f))
		if err != nil {
			return nil, err
		}
		for _, m := range specBlockRe.FindAllSubmatch(b, -1) {
			lines := strings.Split(string(m[1]), "\n")
			var cur *specModel
			section := ""
			secIndent := -1
			for _, ln := range lines {
				if strings.TrimSpace(ln) == "" {
					continue
				}
				ind := indentOf(ln)
				txt := strings.TrimSpace(ln)
				colon := strings.Index(txt, ":")
				if colon < 0 {
					continue
				}
				key := strings.TrimSpace(txt[:colon])
				val := strings.TrimSpace(txt[colon+1:])
				val = strings.Trim(val, "'\"")
				if ind == 0 {
					res = append(res, specModel{name: key, file: f})
					cur = &res[len(res)-1]
					section = ""
					secIndent = -1
					continue
				}
				if cur == nil {
					continue
				}
				switch key {
				case "inputs", "states", "parameters", "outputs", "implementation", "init", "tags", "extractstates":
					if secIndent < 0 || ind <= secIndent {
						section = key
						secIndent = ind
						continue
					}
				}
				if ind <= secIndent {
					section = ""
					continue
				}
				switch section {
				case "inputs":
					cur.inputs = append(cur.inputs, key)
				case "states":
					cur.states = append(cur.states, key)
				case "outputs":
					cur.outputs = append(cur.outputs, key)
				case "parameters":
					p := specParam{name: key}
					if i := strings.Index(key, "["); i >= 0 {
						p.name = key[:i]
						for _, d := range strings.Split(strings.Trim(key[i:], "[]"), ",") {
							p.dims = append(p.dims, strings.TrimSpace(d))
						}
					}
					if mm := rangeRe.FindStringSubmatch(val); mm != nil {
						p.hasRange = true
						p.min, _ = strconv.ParseFloat(mm[1], 64)
						p.max, _ = strconv.ParseFloat(mm[2], 64)
					} else if openRangeRe.MatchString(val) {
						p.hasRange = false
						p.min, p.max = -1, -1 // open / unparseable: not compared
					} else {
						p.hasRange = true // no range given: Description carries 0,0
					}
					if mm := defaultRe.FindStringSubmatch(val); mm != nil {
						p.def, _ = strconv.ParseFloat(mm[1], 64)
					}
					cur.params = append(cur.params, p)
				}
			}
		}
	}
	return res, nil
}

func c09Catalogue(c *core.Ctx) {
	c.Begin(map[string]interface{}{"model": "catalogue", "spec_root": repoDir + "/models"})
	c.Class("catalogue")
	specs, err := parseSpecs()
	if err != nil {
		c.Inconclusive(err.Error())
		return
	}
	seen := map[string]bool{}
	for _, s := range specs {
		seen[s.name] = true
		f := sim.Catalog[s.name]
		if f == nil {
			c.Violate("spec-not-registered", s.name, fmt.Sprintf("OW-SPEC block %s in models/%s has no catalogue entry", s.name, s.file))
			continue
		}
		// second pass: a caller that edits the Description it was handed (sorts the names, overrides a default) must not
		// change what the catalogue reports afterwards
		for pass := 0; pass < 2; pass++ {
			d := f().Description()
			if pass == 1 {
				c.Count("descriptions_rechecked_after_caller_edits", 1)
			}
			c.Count("models_compared", 1)
			cmpList := func(what string, spec, got []string) {
				c.Count("catalogue_fields_compared", float64(len(spec)+1))
				if !equalStrings(spec, got) {
					c.Violate("description-mismatch", s.name, fmt.Sprintf("%s: spec order %v, Description() %v", what, spec, got), "field", what)
				}
			}
			cmpList("inputs", s.inputs, d.Inputs)
			cmpList("states", s.states, d.States)
			cmpList("outputs", s.outputs, d.Outputs)
			var pn []string
			for _, p := range s.params {
				pn = append(pn, p.name)
			}
			var gn []string
			for _, p := range d.Parameters {
				gn = append(gn, p.Name)
			}
			cmpList("parameters", pn, gn)
			if len(pn) == len(gn) {
				dimSet := map[string]bool{}
				for i, p := range s.params {
					g := d.Parameters[i]
					c.Count("catalogue_fields_compared", 3)
					if p.def != g.Default {
						c.Violate("description-mismatch", s.name, fmt.Sprintf("parameter %s: spec default %v, Description() default %v", p.name, p.def, g.Default), "field", "default")
					}
					if p.min >= 0 || p.hasRange {
						wantMin, wantMax := p.min, p.max
						if p.min < 0 && p.max < 0 && !p.hasRange {
							wantMin, wantMax = g.Range[0], g.Range[1]
						}
						if p.hasRange && (wantMin != g.Range[0] || wantMax != g.Range[1]) {
							c.Violate("description-mismatch", s.name, fmt.Sprintf("parameter %s: spec range [%v,%v], Description() range %v", p.name, wantMin, wantMax, g.Range), "field", "range")
						}
					}
					if !equalStrings(p.dims, g.Dimensions) {
						c.Violate("description-mismatch", s.name, fmt.Sprintf("parameter %s: spec dimensions %v, Description() dimensions %v", p.name, p.dims, g.Dimensions), "field", "dimensions")
					}
					for _, dd := range p.dims {
						dimSet[dd] = true
					}
				}
				var wantDims []string
				for dd := range dimSet {
					wantDims = append(wantDims, dd)
				}
				sort.Strings(wantDims)
				gd := append([]string{}, d.Dimensions...)
				sort.Strings(gd)
				if !equalStrings(wantDims, gd) {
					c.Violate("description-mismatch", s.name, fmt.Sprintf("dimensions: spec %v, Description() %v", wantDims, gd), "field", "model-dimensions")
				}
			}
			// the caller's edits
			for _, l := range [][]string{d.Inputs, d.States, d.Outputs, d.Dimensions} {
				for i, j := 0, len(l)-1; i < j; i, j = i+1, j-1 {
					l[i], l[j] = l[j], l[i]
				}
				if len(l) == 1 {
					l[0] += "_edited"
				}
			}
			for i := range d.Parameters {
				d.Parameters[i].Name += "_edited"
				d.Parameters[i].Default += 1
				d.Parameters[i].Range[0], d.Parameters[i].Range[1] = -7, -7
				for k := range d.Parameters[i].Dimensions {
					d.Parameters[i].Dimensions[k] += "_edited"
				}
			}
			if len(c.Res.Violations) > 0 {
				break
			}
		}
	}
	for name := range sim.Catalog {
		if !seen[name] {
			c.Violate("catalogue-entry-without-spec", name, "catalogue entry has no OW-SPEC block")
		}
	}
	c.Count("spec_blocks", float64(len(specs)))
	c.Count("catalogue_entries", float64(len(sim.Catalog)))
}

func equalStrings(a, b []string) bool {
	if len(a) != len(b) {
		return false
	}
	for i := range a {
		if a[i] != b[i] {
			return false
		}
	}
	return true
}
