package props

// C10 - rainfall-runoff models never create water and keep stores within bounds.

import (
	"fmt"
	"math"

	"verif/core"
)

var c10Models = []string{"GR4J", "Sacramento", "Simhyd", "Surm", "RunoffCoefficient"}

func init() {
	core.Register(&core.Prop{
		ID:    "C10",
		Level: "exploration",
		Rule: "case = (model, parameter set from the documented/physical ranges, rainfall/PET series of 50-400 steps, init or hot start); the run is chained one step at a time so that stores are observed after every step, and also executed whole; " +
			"every step is one evaluation of the finiteness/sign/bounds/component monitors, every run one evaluation of the no-creation inequality (and the exact GR4J closure for x2=0, PET=0); distinct = distinct (model, regime, hot) ; non-trivial = some rain",
		Assumptions: []string{
			"eps = 1e-9 * scale",
			"initial storage = sum of the model's stores (Sacramento lower free-water stores scaled by 1+side): an upper bound of the area-weighted storage, exact for zero-state starts",
			"GR4J with x2>0 imports groundwater by definition: sum of max(0,F_t), recomputed by the oracle from the observed routing store, is added to the right-hand side",
			"Sacramento is chained step-by-step only with the no-lag unit hydrograph (its UH buffer is not a state: known finding of C06); lagged UHs are checked on whole runs",
		},
		Workloads: []core.Workload{
			{Name: "rr", Variant: "plain", N: core.Tiered(5*160, 5*6000), Run: func(c *core.Ctx) { c10Run(c, false) }},
			// simulation-length single calls (2100-6000 daily steps): buffers that are compacted, rotated or re-used every so
			// many steps inside one Run are only exercised by runs longer than their period
			{Name: "rr-long", Variant: "plain", N: core.Tiered(5*12, 5*200), Run: func(c *core.Ctx) { c10Run(c, true) }, TimeoutS: 600},
		},
		RequireTags: func(string) []string { return []string{"GR4J:closure", "Sacramento:chained", "Sacramento:whole-lagged", "Sacramento:small-lztwm-stress", "Sacramento:small-suppl-store-stress", "Sacramento:small-tension-stores-stress"} },
	})
}

func c10Run(c *core.Ctx, long bool) {
	model := c10Models[c.Idx%len(c10Models)]
	T := c.R.IntRange(50, 400)
	if c.Tier == "quick" {
		T = c.R.IntRange(50, 150)
	}
	if long {
		T = c.R.IntRange(2100, 6000)
	}
	desc := NewModel(model).Description()
	ps := GenPSet(model, c.R, genOpts{})
	get := func(n string) float64 { return ps[paramIndex(desc, n)][0] }
	closure := false
	if model == "GR4J" && (c.R.Bool(0.25) || (long && c.R.Bool(0.6))) {
		ps[paramIndex(desc, "X2")][0] = 0
		closure = true
	}
	if long && model == "GR4J" && ps[paramIndex(desc, "X2")][0] > 0 {
		// the long runs are simulated in ONE call (no per-step routing store to recompute the groundwater import from)
		ps[paramIndex(desc, "X2")][0] = -ps[paramIndex(desc, "X2")][0]
	}
	in := GenInputs(model, c.R, T, ps)
	if closure {
		for t := range in[1] {
			in[1][t] = 0
		}
	}
	// Sacramento stress regime: a small lower tension store (the ADIMP runoff ratio is (ADIMC-UZTWC)/lztwm), a large
	// upper free-water store that big storms fill, and heat-wave PET right after the storms, so that the
	// free-to-tension transfer lifts UZTWC well above ADIMC
	stress := false
	if model == "Sacramento" && c.R.Bool(0.3) {
		stress = true
		ps[paramIndex(desc, "lztwm")][0] = c.R.Range(5, 12)
		ps[paramIndex(desc, "uzfwm")][0] = c.R.Range(40, 75)
		ps[paramIndex(desc, "uztwm")][0] = c.R.Range(30, 125)
		ps[paramIndex(desc, "adimp")][0] = c.R.Range(0.05, 0.5)
		if c.R.Bool(0.6) { // slow drainage keeps the free-water store full into the heat wave
			ps[paramIndex(desc, "uzk")][0] = c.R.Range(0, 0.3)
			ps[paramIndex(desc, "lzpk")][0] = c.R.Range(0, 0.05)
			ps[paramIndex(desc, "lzsk")][0] = c.R.Range(0, 0.3)
		}
		for t := 0; t < T; t++ {
			in[0][t], in[1][t] = 0, c.R.Range(0, 8)
			if c.R.Bool(0.3) {
				in[0][t] = c.R.Exp(15)
			}
		}
		for t := c.R.Intn(10); t+1 < T; t += c.R.IntRange(3, 15) {
			in[0][t] = c.R.Range(100, 500)
			in[1][t+1] = c.R.Range(20, 40)
			if c.R.Bool(0.5) {
				in[0][t+1] = c.R.Range(0, 40)
			}
		}
	}
	// second Sacramento stress regime: a small supplemental free-water store that stays full (no drainage) next
	// to a large primary one, and percolation bursts larger than the supplemental capacity
	stress2 := false
	if model == "Sacramento" && !stress && c.R.Bool(0.3) {
		stress2 = true
		set := func(n string, v float64) { ps[paramIndex(desc, n)][0] = v }
		set("lzfsm", c.R.Range(5, 7))
		set("lzfpm", c.R.Range(400, 600))
		set("lzsk", pick(c.R, 0, 0, c.R.Range(0, 0.005)))
		set("lzpk", c.R.Range(0.01, 0.08))
		set("side", c.R.Range(0, 0.5))
		set("pfree", c.R.Range(0.6, 1))
		set("zperc", c.R.Range(15, 80))
		set("rexp", c.R.Range(0, 0.5))
		set("uzk", c.R.Range(0, 0.1))
		set("uzfwm", c.R.Range(50, 75))
		set("lztwm", c.R.Range(5, 100))
		// cycles: wet spell (everything fills), a few dry days without evaporation (only the primary store
		// drains), a storm, a dry day
		t := 0
		put := func(rain, pet float64) {
			if t < T {
				in[0][t], in[1][t] = rain, pet
				t++
			}
		}
		for t < T {
			for k := c.R.IntRange(8, 15); k > 0; k-- {
				put(c.R.Range(30, 80), c.R.Range(0, 3))
			}
			for k := c.R.IntRange(1, 4); k > 0; k-- {
				put(0, 0)
			}
			put(c.R.Range(80, 300), 0)
			for k := c.R.IntRange(1, 3); k > 0; k-- {
				put(0, c.R.Range(0, 5))
			}
		}
	}
	// third Sacramento stress regime: BOTH tension stores only a few mm deep, light rain, and hot spells whose demand
	// left over after the upper zone exceeds what the two stores hold together
	stress3 := false
	if model == "Sacramento" && !stress && !stress2 && c.R.Bool(0.3) {
		stress3 = true
		ps[paramIndex(desc, "uztwm")][0] = c.R.Range(5, 12)
		ps[paramIndex(desc, "lztwm")][0] = c.R.Range(5, 12)
		ps[paramIndex(desc, "uzfwm")][0] = c.R.Range(5, 30)
		for t := 0; t < T; t++ {
			in[0][t], in[1][t] = 0, c.R.Range(0, 6)
			if c.R.Bool(0.35) {
				in[0][t] = c.R.Range(0, 8)
			}
		}
		for t := c.R.Intn(6); t+2 < T; t += c.R.IntRange(4, 12) {
			in[0][t], in[1][t] = c.R.Range(3, 15), c.R.Range(0, 3) // a wetting day
			in[0][t+1], in[1][t+1] = 0, c.R.Range(5, 15)          // a warm dry day
			in[0][t+2], in[1][t+2] = 0, c.R.Range(15, 40)         // a very hot day
		}
	}
	// long Sacramento calls without any unreported loss (no side flow, channel loss, riparian ET or impervious areas) under
	// frequent storms of every depth: then the only slack in "runoff + ET <= rainfall + initial storage" is the water still
	// stored, and a few mm created per storm add up to more than the stores can hold
	tight := false
	if long && model == "Sacramento" && c.R.Bool(0.6) {
		tight = true
		for _, n := range []string{"side", "ssout", "sarva", "adimp"} {
			ps[paramIndex(desc, n)][0] = 0
		}
		ps[paramIndex(desc, "pctim")][0] = c.R.Range(0, 0.05)
		for t := 0; t < T; t++ {
			in[0][t], in[1][t] = 0, c.R.Range(0, 5)
			if c.R.Bool(0.4) {
				in[0][t] = c.R.Range(5, 130)
			}
		}
	}
	// extreme storm now and then
	if c.R.Bool(0.3) && !stress3 && !tight {
		in[0][c.R.Intn(T)] = c.R.Range(200, 500)
	}
	hot := c.R.Bool(0.4)
	chained := true
	if model == "Sacramento" {
		lagged := false
		for _, n := range []string{"uh2", "uh3", "uh4", "uh5"} {
			if get(n) != 0 {
				lagged = true
			}
		}
		chained = !lagged
	}
	if long {
		chained = false
	}
	run := &MRun{Model: model, N: 1, T: T, Sets: []PSet{ps}, Inputs: [][][]float64{in}}
	var warm *MRun
	if hot {
		wT := c.R.IntRange(5, 60)
		warm = &MRun{Model: model, N: 1, T: wT, Sets: []PSet{ps}, Inputs: [][][]float64{GenInputs(model, c.R, wT, ps)}}
	}
	c.Begin(map[string]interface{}{"model": model, "run": run, "warmup_for_hot_states": warm, "chained": chained})
	if c.R.Bool(0.2) {
		HostileHistory(c, model, run.Sets)
	}
	if long {
		c.Tag("long-single-call")
	}
	if tight {
		c.Tag("Sacramento:long-without-unreported-losses")
	}
	if stress {
		c.Tag("Sacramento:small-lztwm-stress")
	}
	if stress2 {
		c.Tag("Sacramento:small-suppl-store-stress")
	}
	if stress3 {
		c.Tag("Sacramento:small-tension-stores-stress")
	}
	maxRain := 0.0
	for _, v := range in[0] {
		maxRain = math.Max(maxRain, v)
	}
	c.Class(fmt.Sprintf("%s/hot%v/chained%v/closure%v/storm%v/stress%v/T%d", model, hot, chained, closure, maxRain >= 200, stress || stress2 || stress3, T/100))
	// initial states
	if hot {
		wo, err := Execute(warm)
		if err != nil {
			c.Violate("prepare", model, err.Error())
			return
		}
		run.States = wo.States
	} else {
		p, err := Prepare(run)
		if err != nil {
			c.Violate("prepare", model, err.Error())
			return
		}
		run.States = From2(p.States)
	}
	state0 := append([]float64{}, run.States[0]...)
	rain := in[0]
	iRunoff := indexOf(desc.Outputs, "runoff")
	sumRain, sumRunoff, sumET := 0.0, 0.0, 0.0
	anyRain := false
	for _, v := range rain {
		sumRain += v
		if v > 0 {
			anyRain = true
		}
	}
	if !anyRain {
		c.Trivial()
	}
	storage := func(st []float64) float64 {
		switch model {
		case "GR4J":
			s := st[0] + st[1]
			for _, v := range st[4:] {
				s += v
			}
			return s
		case "Sacramento":
			side := get("side")
			return st[0] + st[1] + st[2] + (st[3]+st[4])*(1+side) + st[5]
		case "Simhyd", "Surm":
			return st[0] + st[1]
		}
		return 0
	}
	checkStores := func(t int, st []float64) {
		type b struct {
			name   string
			v, cap float64
		}
		var bs []b
		switch model {
		case "GR4J":
			bs = []b{{"production store S", st[0], get("X1")}, {"routing store R", st[1], get("X3")}}
			for i, v := range st[4:] {
				bs = append(bs, b{fmt.Sprintf("unit-hydrograph store[%d]", i), v, math.Inf(1)})
			}
		case "Sacramento":
			bs = []b{{"UprTensionWater", st[0], get("uztwm")}, {"UprFreeWater", st[1], get("uzfwm")}, {"LwrTensionWater", st[2], get("lztwm")},
				{"LwrPrimaryFreeWater", st[3], get("lzfpm")}, {"LwrSupplFreeWater", st[4], get("lzfsm")}, {"AdditionalImperviousStore", st[5], math.Inf(1)}}
		case "Simhyd":
			bs = []b{{"SoilMoistureStore", st[0], get("soilMoistureStoreCapacity")}, {"Groundwater", st[1], math.Inf(1)}}
		case "Surm":
			bs = []b{{"SoilMoistureStore", st[0], get("smax")}, {"Groundwater", st[1], math.Inf(1)}}
		}
		for _, x := range bs {
			eps := 1e-9 * math.Max(1, math.Abs(x.cap))
			if math.IsInf(x.cap, 1) {
				eps = 1e-9
			}
			c.Count("store_values_checked", 1)
			if !core.Finite(x.v) {
				c.Violate("store-nonfinite", model, fmt.Sprintf("t=%d: %s=%v", t, x.name, x.v))
			} else if x.v < -eps {
				c.Violate("store-negative", model, fmt.Sprintf("t=%d: %s=%v (below zero); parameters %v", t, x.name, x.v, ps), "store", x.name)
			} else if x.v > x.cap+eps {
				c.Violate("store-above-capacity", model, fmt.Sprintf("t=%d: %s=%v exceeds its capacity %v", t, x.name, x.v, x.cap), "store", x.name)
			}
			if !math.IsInf(x.cap, 1) && x.cap > 0 {
				c.Max("max_store_over_capacity/"+model, x.v/x.cap)
			}
			c.Min("min_store/"+model, x.v)
		}
	}
	checkOutputs := func(t int, o func(name string) float64) {
		for _, n := range desc.Outputs {
			v := o(n)
			if !core.Finite(v) {
				c.Violate("output-nonfinite", model, fmt.Sprintf("t=%d: %s=%v", t, n, v))
			} else if v < -1e-9 {
				c.Violate("output-negative", model, fmt.Sprintf("t=%d: %s=%v; parameters %v", t, n, v, ps), "output", n)
			}
		}
		switch model {
		case "Simhyd", "Surm":
			if !core.RelClose(o("runoff"), o("quickflow")+o("baseflow"), 1e-9, 1e-12) {
				c.Violate("components-do-not-add-up", model, fmt.Sprintf("t=%d: runoff=%v quickflow+baseflow=%v", t, o("runoff"), o("quickflow")+o("baseflow")))
			}
		case "Sacramento":
			if !core.RelClose(o("runoff"), o("surfaceRunoff")+o("baseflow"), 1e-9, 1e-12) {
				c.Violate("components-do-not-add-up", model, fmt.Sprintf("t=%d: runoff=%v surfaceRunoff+baseflow=%v", t, o("runoff"), o("surfaceRunoff")+o("baseflow")))
			}
		case "RunoffCoefficient":
			if !core.RelClose(o("runoff"), get("coeff")*rain[t], 1e-12, 0) {
				c.Violate("runoff-coefficient", model, fmt.Sprintf("t=%d: runoff=%v coeff*rain=%v", t, o("runoff"), get("coeff")*rain[t]))
			}
		}
		c.Count("steps_monitored/"+model, 1)
	}
	imported := 0.0 // GR4J groundwater import sum max(0,F_t)
	var finalState []float64
	if chained && model != "RunoffCoefficient" {
		if model == "Sacramento" {
			c.Tag("Sacramento:chained")
		}
		st := run.States
		for t := 0; t < T; t++ {
			if model == "GR4J" && get("X2") > 0 {
				imported += 2 * math.Max(0, get("X2")*math.Pow(st[0][1]/get("X3"), 3.5)) // F enters the routing store and the direct branch
			}
			seg := &MRun{Model: model, N: 1, T: 1, Sets: run.Sets, Inputs: sliceT(run.Inputs, t, t+1), States: st}
			so, err := Execute(seg)
			if err != nil {
				c.Violate("prepare", model, err.Error())
				return
			}
			checkOutputs(t, func(n string) float64 { return so.Out[0][indexOf(desc.Outputs, n)][0] })
			checkStores(t, so.States[0])
			sumRunoff += so.Out[0][iRunoff][0]
			if i := indexOf(desc.Outputs, "actualET"); i >= 0 {
				sumET += so.Out[0][i][0]
			}
			st = so.States
			if len(c.Res.Violations) >= 4 {
				return
			}
		}
		finalState = st[0]
	} else {
		if model == "Sacramento" {
			c.Tag("Sacramento:whole-lagged")
		}
		out, err := ExecuteFor(c, run)
		if err != nil {
			c.Violate("prepare", model, err.Error())
			return
		}
		for t := 0; t < T; t++ {
			tt := t
			checkOutputs(t, func(n string) float64 { return out.Out[0][indexOf(desc.Outputs, n)][tt] })
			sumRunoff += out.Out[0][iRunoff][t]
			if i := indexOf(desc.Outputs, "actualET"); i >= 0 {
				sumET += out.Out[0][i][t]
			}
			if len(c.Res.Violations) >= 4 {
				return
			}
		}
		if len(out.States[0]) > 0 {
			checkStores(T-1, out.States[0])
			finalState = out.States[0]
		}
	}
	// no creation of water over the run
	init := 0.0
	if len(state0) > 0 {
		init = storage(state0)
	}
	lhs := sumRunoff + sumET
	rhs := sumRain + init + imported
	eps := 1e-9 * math.Max(1, rhs)
	c.Count("runs_balance_checked/"+model, 1)
	if lhs > rhs+eps {
		c.Violate("water-created", model, fmt.Sprintf("cumulative runoff%s = %v exceeds cumulative rainfall %v + initial storage %v%s = %v; parameters %v",
			map[bool]string{true: " + actual ET", false: ""}[sumET != 0], lhs, sumRain, init, map[bool]string{true: fmt.Sprintf(" + imported groundwater %v", imported), false: ""}[imported != 0], rhs, ps))
	}
	if finalState != nil {
		c.Max("sharper_residual_reported_only/"+model, lhs+storage(finalState)-rhs)
		if c.R.Bool(0.25) {
			CheckEmptyRun(c, model, run.Sets, [][]float64{finalState})
		}
	}
	if closure && finalState != nil {
		c.Tag("GR4J:closure")
		res := sumRain - sumRunoff - (storage(finalState) - init)
		c.Max("gr4j_closure_worst_residual", math.Abs(res))
		if math.Abs(res) > 1e-9*math.Max(1, sumRain+init) {
			c.Violate("gr4j-closure", model, fmt.Sprintf("x2=0, PET=0: rainfall %v != runoff %v + change in stores %v (residual %v); x4=%v", sumRain, sumRunoff, storage(finalState)-init, res, get("X4")))
		}
	}
}
