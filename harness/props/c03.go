package props

// C03 - C-memory-backed arrays and the C entry point behave like the Go-native ones.

import (
	"bufio"
	"fmt"
	"os"
	"os/exec"
	"path/filepath"
	"strconv"
	"strings"

	"verif/core"
)

func init() {
	core.Register(&core.Prop{
		ID:    "C03",
		Level: "exploration",
		Rule: "lockstep: one generated C01/C02 history applied to a Go-backed and a C-backed array of equal contents, compared after every op (values, shapes, errors, contiguity, whole caller buffer, canaries; guard pages before/after the buffer, ASan red zones in the -asan build); " +
			"abi: catalogue model run through libopenwater.so:RunSingleModel on malloc'ed buffers vs the Go API; distinct = distinct (type, allocation mode, ndims, depth) resp. (model, shape, initStates); non-trivial = at least one write",
		Assumptions: []string{
			"C buffers are real C memory: mmap with PROT_NONE guard page after / before the buffer, or malloc with 64-byte canaries",
			"Unroll() on the C back-end is documented to copy: only values are compared, not slice aliasing",
			"int/uint C-backed arrays wrap C int / unsigned int (4 bytes), as cdata declares",
		},
		Needs: []string{"libow"},
		Workloads: []core.Workload{
			{Name: "lockstep", Variant: "plain", N: core.Tiered(8*150, 8*15000), Run: c03Lockstep},
			{Name: "lockstep-asan", Variant: "asan", N: core.Tiered(8*40, 8*3000), Run: c03LockstepAsan,
				Env: []string{"ASAN_OPTIONS=detect_leaks=0:halt_on_error=1:abort_on_error=1"}},
			{Name: "abi", Variant: "plain", N: core.Tiered(41*3, 41*250), Run: func(c *core.Ctx) { c03ABI(c, false) }, TimeoutS: 120},
			// the two table-parameter models, whose parameter block is laid out for the widest table of ALL sets
			{Name: "abi-tables", Variant: "plain", N: core.Tiered(60, 2000), Run: func(c *core.Ctx) { c03ABI(c, true) }, TimeoutS: 120},
		},
		RequireTags: func(string) []string { return []string{"alloc:guard-after", "alloc:guard-before", "alloc:malloc", "abi:initstates", "abi:states"} },
	})
}

func c03Lockstep(c *core.Ctx) {
	typ := arrayTypes[c.Idx%8]
	p := genProgram(c.R, typ, "go+c", progOpts{nOps: c.R.IntRange(15, 50), allowBulk: true, maxViews: 12})
	c.Begin(p)
	c.Tag("alloc:" + []string{"guard-after", "guard-before", "malloc"}[c.Idx%3])
	execTyped(c, p, []string{"go", "c"}, execOpts{prop: "", lockstep: true})
}

func c03LockstepAsan(c *core.Ctx) {
	typ := arrayTypes[c.Idx%8]
	p := genProgram(c.R, typ, "go+c:malloc", progOpts{nOps: c.R.IntRange(15, 50), allowBulk: true, maxViews: 12})
	c.Begin(p)
	c.Tag("alloc:malloc")
	execTyped(c, p, []string{"go", "c:malloc"}, execOpts{prop: "", lockstep: true})
}

// ---------------------------------------------------------------------------
// (b) the C ABI: RunSingleModel in libopenwater.so, driven by an ASan-built C program

func writeHex(w *bufio.Writer, vals []float64) {
	for _, v := range vals {
		w.WriteString(strconv.FormatFloat(v, 'x', -1, 64))
		w.WriteByte('\n')
	}
}

func flatten2(a [][]float64) []float64 {
	var r []float64
	for _, row := range a {
		r = append(r, row...)
	}
	return r
}

func flatten3(a [][][]float64) []float64 {
	var r []float64
	for _, x := range a {
		r = append(r, flatten2(x)...)
	}
	return r
}

func readResult(path string) (outs, states, ins, pars []float64, err error) {
	f, e := os.Open(path)
	if e != nil {
		return nil, nil, nil, nil, e
	}
	defer f.Close()
	sc := bufio.NewScanner(f)
	sc.Buffer(make([]byte, 1<<20), 64<<20)
	readBlock := func() ([]float64, error) {
		if !sc.Scan() {
			return nil, fmt.Errorf("short result file")
		}
		n, e := strconv.Atoi(strings.TrimSpace(sc.Text()))
		if e != nil {
			return nil, e
		}
		r := make([]float64, n)
		for i := 0; i < n; i++ {
			if !sc.Scan() {
				return nil, fmt.Errorf("short result file")
			}
			t := strings.TrimSpace(sc.Text())
			switch t {
			case "nan", "-nan":
				r[i] = nan()
			case "inf":
				r[i] = inf(1)
			case "-inf":
				r[i] = inf(-1)
			default:
				v, e := strconv.ParseFloat(t, 64)
				if e != nil {
					return nil, e
				}
				r[i] = v
			}
		}
		return r, nil
	}
	if outs, err = readBlock(); err != nil {
		return
	}
	if states, err = readBlock(); err != nil {
		return
	}
	if ins, err = readBlock(); err != nil {
		return
	}
	pars, err = readBlock()
	return
}

func c03ABI(c *core.Ctx, tablesOnly bool) {
	names := ModelNames()
	model := names[c.Idx%len(names)]
	if tablesOnly {
		model = []string{"Storage", "RatingCurvePartition"}[c.Idx%2]
	}
	shapes := [][3]int{{1, 1, 1}, {3, 1, 1}, {4, 2, 2}, {5, 2, 3}, {2, 2, 2}, {6, 4, 1}, {1, 2, 1}, {2, 5, 3}, {3, 4, 7}, {1, 3, 2}} // also more parameter sets / input blocks than cells
	sh := shapes[c.R.Intn(len(shapes))]
	if tablesOnly && c.R.Bool(0.5) {
		sh = shapes[6+c.R.Intn(4)]
	}
	N, P, B := sh[0], sh[1], sh[2]
	T := []int{1, 3, 12, 30, 0, 1, 2, 12}[c.R.Intn(8)] // also the empty series: the library still initialises / returns the states
	if !tablesOnly && c.R.Bool(0.12) {
		// a catchment-sized batch with its own parameter set per cell and short series: thousands of cell goroutines are
		// inside the (C-backed) parameter views at the same moment
		N = []int{1000, 2000, 3000}[c.R.Intn(3)]
		P, B, T = N, []int{1, 3, N}[c.R.Intn(3)], 3
	}
	wc := 0
	if needsWidthClass(model) {
		wc = widthClassFor(c.R, N)
	}
	run := GenRun(model, c.R, N, P, B, max(T, 1), wc)
	if T == 0 {
		if EmptySeriesOK(model) {
			run = emptied(run)
		} else {
			T = 1 // this model's kernel has no answer for an empty series (Go API and C entry point alike)
		}
	}
	mode := c.R.Intn(3) // 0: caller states, 1: initStates with states pointer, 2: initStates with NULL states
	var warm *MRun
	if mode == 0 && c.R.Bool(0.5) {
		warm = GenRun(model, c.R, N, P, B, c.R.IntRange(2, 8), wc)
		warm.Sets = run.Sets
	}
	c.Begin(map[string]interface{}{"model": model, "run": run, "mode": []string{"caller-states", "initStates+states", "initStates+NULL"}[mode], "warmup_for_hot_states": warm})
	c.Class(fmt.Sprintf("abi/%s/%d-%d-%d/T%d/mode%d", model, N, P, B, T, mode))
	if mode == 0 {
		c.Tag("abi:states")
	} else {
		c.Tag("abi:initstates")
	}
	if T == 0 {
		c.Tag("abi:empty-series")
	}
	if N >= 1000 {
		c.Tag("abi:catchment-sized-batch")
	}
	// Go API reference
	p, err := Prepare(run)
	if err != nil {
		c.Violate("prepare", model, err.Error())
		return
	}
	if warm != nil {
		wo, _ := Execute(warm)
		run.States = wo.States
		p, _ = Prepare(run)
	}
	states0 := From2(p.States)
	ref := p.Exec()
	desc := p.Desc
	params := FlattenParams(desc, run.Sets)
	nStates := 0
	if len(states0) > 0 {
		nStates = len(states0[0])
	}
	dir := os.Getenv("VERIF_WORKDIR")
	if dir == "" {
		dir = "/verif/work/C03"
	}
	base := filepath.Join(dir, fmt.Sprintf("abi-%s-%d", os.Getenv("VERIF_SLOT"), os.Getpid()))
	casePath, resPath := base+".case", base+".res"
	defer os.Remove(casePath)
	defer os.Remove(resPath)
	f, err := os.Create(casePath)
	if err != nil {
		c.Inconclusive("cannot write case file: " + err.Error())
		return
	}
	w := bufio.NewWriter(f)
	initStates, statesNull := 0, 0
	if mode >= 1 {
		initStates = 1
	}
	if mode == 2 {
		statesNull = 1
	}
	fmt.Fprintf(w, "%s\n%d %d %d %d %d %d %d %d %d %d %d %d\n", model, B, len(desc.Inputs), T, len(params), P, N, nStates, N, len(desc.Outputs), T, initStates, statesNull)
	writeHex(w, flatten3(run.Inputs))
	writeHex(w, flatten2(params))
	if statesNull == 0 {
		if mode == 0 {
			writeHex(w, flatten2(states0))
		} else {
			junk := make([]float64, N*nStates)
			for i := range junk {
				junk[i] = -777
			}
			writeHex(w, junk)
		}
	}
	w.Flush()
	f.Close()
	cmd := exec.Command("/verif/bin/cdrv", casePath, resPath)
	cmd.Env = append(os.Environ(), "ASAN_OPTIONS=detect_leaks=0:halt_on_error=1:abort_on_error=0:exitcode=77")
	outB, runErr := cmd.CombinedOutput()
	c.Count("abi_calls", 1)
	if runErr != nil {
		txt := string(outB)
		kind := "abi-crash"
		if strings.Contains(txt, "AddressSanitizer") {
			kind = "abi-asan-report"
			c.Count("asan_reports", 1)
		}
		if i := strings.Index(txt, "ERROR: AddressSanitizer"); i >= 0 {
			txt = txt[i:]
		} else if i := strings.Index(txt, "panic:"); i >= 0 {
			txt = txt[i:]
		}
		if len(txt) > 1200 {
			txt = txt[:1200]
		}
		c.Violate(kind, model, fmt.Sprintf("RunSingleModel through the C ABI failed (%v): %s", runErr, txt))
		return
	}
	outs, sts, ins, pars, err := readResult(resPath)
	if err != nil {
		c.Violate("abi-crash", model, "no complete result from the C driver: "+err.Error())
		return
	}
	wantOut := flatten3(ref.Out)
	if i := core.SameSlice(outs, wantOut); i >= 0 {
		c.Violate("abi-output-differs", model, fmt.Sprintf("outputs through the C ABI differ from the Go API at flat index %d: %v vs %v", i, at(outs, i), at(wantOut, i)))
	}
	if statesNull == 0 {
		wantSt := flatten2(ref.States)
		if i := core.SameSlice(sts, wantSt); i >= 0 {
			c.Violate("abi-state-differs", model, fmt.Sprintf("final states through the C ABI differ from the Go API at flat index %d: %v vs %v (mode %d)", i, at(sts, i), at(wantSt, i), mode), "mode", fmt.Sprint(mode))
		}
	}
	if i := core.SameSlice(ins, flatten3(run.Inputs)); i >= 0 {
		c.Violate("abi-inputs-modified", model, fmt.Sprintf("caller's input buffer modified at %d", i))
	}
	if i := core.SameSlice(pars, flatten2(params)); i >= 0 {
		c.Violate("abi-params-modified", model, fmt.Sprintf("caller's parameter buffer modified at %d", i))
	}
	if !anyNonZero(ref) {
		c.Trivial()
	}
}

func at(a []float64, i int) interface{} {
	if i < len(a) {
		return a[i]
	}
	return "missing"
}
