package props

// Generic model driver: builds parameter / input / state / output arrays for any
// catalogued model and runs it through the public TimeSteppingModel interface.

import (
	"fmt"
	"math"
	"sort"

	"github.com/flowmatters/openwater-core/data"
	_ "github.com/flowmatters/openwater-core/models"
	"github.com/flowmatters/openwater-core/sim"
)

// PSet is one parameter set: values per parameter, in Description order; scalar
// parameters have one value, table (dimensioned) parameters one value per point.
type PSet [][]float64

type MRun struct {
	Model  string        `json:"model"`
	N      int           `json:"cells"`
	T      int           `json:"timesteps"`
	Sets   []PSet        `json:"param_sets"`
	Inputs [][][]float64 `json:"inputs"` // [block][input][t]
	States [][]float64   `json:"states,omitempty"`
	// Surplus: further parameter sets in the LAST columns of the parameter table that no cell of this run uses: the
	// table's dimensions are found over all columns, the model is given only the first len(Sets) columns (ow-sim finds
	// dimensions over all nodes of a model type and applies the parameters of one generation at a time)
	Surplus []PSet `json:"surplus_param_sets,omitempty"`
	// PadCells/PadT: output array larger than needed by this much
	PadCells int `json:"pad_cells,omitempty"`
	PadT     int `json:"pad_t,omitempty"`
}

type MOut struct {
	Out    [][][]float64 // [cell][output][t]
	States [][]float64   // [cell][state]
	// PadDirty: number of padding elements of the output array that are not zero
	PadDirty int
}

func ModelNames() []string {
	names := make([]string, 0, len(sim.Catalog))
	for n := range sim.Catalog {
		names = append(names, n)
	}
	sort.Strings(names)
	return names
}

func NewModel(name string) sim.TimeSteppingModel {
	f := sim.Catalog[name]
	if f == nil {
		return nil
	}
	return f()
}

// dimIndex maps a dimension name to the index of the parameter that carries it.
func dimSizes(desc sim.ModelDescription, sets []PSet) map[string]int {
	res := map[string]int{}
	for pi, p := range desc.Parameters {
		for _, d := range p.Dimensions {
			for _, s := range sets {
				if pi < len(s) && len(s[pi]) > res[d] {
					res[d] = len(s[pi])
				}
			}
		}
	}
	return res
}

// FlattenParams lays the parameter sets out as the (rows x sets) matrix that
// ApplyParameters expects: one row per scalar, max-dimension rows per table.
func FlattenParams(desc sim.ModelDescription, sets []PSet) [][]float64 {
	dims := dimSizes(desc, sets)
	var rows [][]float64
	for pi, p := range desc.Parameters {
		n := 1
		for _, d := range p.Dimensions {
			n *= dims[d]
		}
		if len(p.Dimensions) == 0 {
			n = 1
		}
		for k := 0; k < n; k++ {
			row := make([]float64, len(sets))
			for si, s := range sets {
				if pi < len(s) && k < len(s[pi]) {
					row[si] = s[pi][k]
				}
			}
			rows = append(rows, row)
		}
	}
	return rows
}

func Arr2(rows [][]float64) data.ND2Float64 {
	r := len(rows)
	c := 0
	if r > 0 {
		c = len(rows[0])
	}
	a := data.NewArray2DFloat64(r, c)
	for i := 0; i < r; i++ {
		for j := 0; j < c; j++ {
			a.Set2(i, j, rows[i][j])
		}
	}
	return a
}

func Arr3(v [][][]float64) data.ND3Float64 {
	a, b, c := len(v), 0, 0
	if a > 0 {
		b = len(v[0])
		if b > 0 {
			c = len(v[0][0])
		}
	}
	arr := data.NewArray3DFloat64(a, b, c)
	for i := 0; i < a; i++ {
		for j := 0; j < b; j++ {
			for k := 0; k < c; k++ {
				arr.Set3(i, j, k, v[i][j][k])
			}
		}
	}
	return arr
}

func From2(a data.ND2Float64) [][]float64 {
	sh := a.Shape()
	res := make([][]float64, sh[0])
	for i := range res {
		res[i] = make([]float64, sh[1])
		for j := range res[i] {
			res[i][j] = a.Get2(i, j)
		}
	}
	return res
}

func From3(a data.ND3Float64, n0, n1, n2 int) [][][]float64 {
	res := make([][][]float64, n0)
	for i := range res {
		res[i] = make([][]float64, n1)
		for j := range res[i] {
			res[i][j] = make([]float64, n2)
			for k := range res[i][j] {
				res[i][j][k] = a.Get3(i, j, k)
			}
		}
	}
	return res
}

// Prepared holds the live arrays of a run so that callers can inspect them.
type Prepared struct {
	Model   sim.TimeSteppingModel
	Desc    sim.ModelDescription
	Params  data.ND2Float64
	Inputs  data.ND3Float64
	States  data.ND2Float64
	Outputs data.ND3Float64
	Run     *MRun
}

// Prepare builds all arrays for r on a fresh model object.
func Prepare(r *MRun) (*Prepared, error) {
	return PrepareOn(NewModel(r.Model), r)
}

func PrepareOn(m sim.TimeSteppingModel, r *MRun) (*Prepared, error) {
	if m == nil {
		return nil, fmt.Errorf("model %q not in catalogue", r.Model)
	}
	p := &Prepared{Model: m, Desc: m.Description(), Run: r}
	p.Params = Arr2(FlattenParams(p.Desc, r.Sets))
	if len(r.Surplus) > 0 {
		all := append(append([]PSet{}, r.Sets...), r.Surplus...)
		full := Arr2(FlattenParams(p.Desc, all))
		dims := m.FindDimensions(full)
		if len(dims) > 0 {
			m.InitialiseDimensions(dims)
		}
		p.Params = full.Slice([]int{0, 0}, []int{full.Shape()[0], len(r.Sets)}, nil).(data.ND2Float64)
	} else {
		dims := m.FindDimensions(p.Params)
		if len(dims) > 0 {
			m.InitialiseDimensions(dims)
		}
	}
	m.ApplyParameters(p.Params)
	if r.States != nil {
		p.States = Arr2(r.States)
		if len(r.States) > 0 && len(r.States[0]) == 0 {
			p.States = data.NewArray2DFloat64(r.N, 0)
		}
	} else {
		p.States = m.InitialiseStates(r.N)
	}
	p.Inputs = Arr3(r.Inputs)
	if len(p.Desc.Inputs) == 0 || r.T == 0 {
		p.Inputs = data.NewArray3DFloat64(len(r.Inputs), len(p.Desc.Inputs), r.T)
	}
	p.Outputs = data.NewArray3DFloat64(r.N+r.PadCells, len(p.Desc.Outputs), r.T+r.PadT)
	return p, nil
}

func (p *Prepared) Exec() *MOut {
	p.Model.Run(p.Inputs, p.States, p.Outputs)
	return p.Collect()
}

func (p *Prepared) Collect() *MOut {
	r := p.Run
	o := &MOut{}
	o.Out = From3(p.Outputs, r.N, len(p.Desc.Outputs), r.T)
	o.States = From2(p.States)
	if r.PadCells > 0 || r.PadT > 0 {
		sh := p.Outputs.Shape()
		for i := 0; i < sh[0]; i++ {
			for j := 0; j < sh[1]; j++ {
				for k := 0; k < sh[2]; k++ {
					if i >= r.N || k >= r.T {
						if math.Float64bits(p.Outputs.Get3(i, j, k)) != 0 {
							o.PadDirty++
						}
					}
				}
			}
		}
	}
	return o
}

// Execute = Prepare + Exec on a fresh model.
func Execute(r *MRun) (*MOut, error) {
	p, err := Prepare(r)
	if err != nil {
		return nil, err
	}
	return p.Exec(), nil
}

// SingleCell extracts cell i of r as an independent one-cell run (own parameter
// column i mod P, input block i mod B, state row i).
func SingleCell(r *MRun, i int, states [][]float64) *MRun {
	s := &MRun{Model: r.Model, N: 1, T: r.T}
	s.Sets = []PSet{r.Sets[i%len(r.Sets)]}
	s.Inputs = [][][]float64{r.Inputs[i%len(r.Inputs)]}
	if states != nil {
		row := make([]float64, len(states[i]))
		copy(row, states[i])
		s.States = [][]float64{row}
	}
	return s
}

func clone2(a [][]float64) [][]float64 {
	if a == nil {
		return nil
	}
	r := make([][]float64, len(a))
	for i := range a {
		r[i] = append([]float64(nil), a[i]...)
	}
	return r
}

func clone3(a [][][]float64) [][][]float64 {
	r := make([][][]float64, len(a))
	for i := range a {
		r[i] = clone2(a[i])
	}
	return r
}

// sliceT returns inputs restricted to timesteps [a,b).
func sliceT(in [][][]float64, a, b int) [][][]float64 {
	r := make([][][]float64, len(in))
	for i := range in {
		r[i] = make([][]float64, len(in[i]))
		for j := range in[i] {
			r[i][j] = append([]float64(nil), in[i][j][a:b]...)
		}
	}
	return r
}

func paramIndex(desc sim.ModelDescription, name string) int {
	for i, p := range desc.Parameters {
		if p.Name == name {
			return i
		}
	}
	return -1
}

func indexOf(names []string, name string) int {
	for i, n := range names {
		if n == name {
			return i
		}
	}
	return -1
}

// diff3 reports the first bit-level difference between two [cell][out][t] blocks.
func diffBits3(a, b [][][]float64) (string, bool) {
	for i := range a {
		for j := range a[i] {
			for k := range a[i][j] {
				if math.Float64bits(a[i][j][k]) != math.Float64bits(b[i][j][k]) {
					return fmt.Sprintf("[cell %d][var %d][t %d]: %v vs %v", i, j, k, a[i][j][k], b[i][j][k]), true
				}
			}
		}
	}
	return "", false
}

func diffBits2(a, b [][]float64) (string, bool) {
	for i := range a {
		if len(a[i]) != len(b[i]) {
			return fmt.Sprintf("[row %d]: width %d vs %d", i, len(a[i]), len(b[i])), true
		}
		for j := range a[i] {
			if math.Float64bits(a[i][j]) != math.Float64bits(b[i][j]) {
				return fmt.Sprintf("[row %d][col %d]: %v vs %v", i, j, a[i][j], b[i][j]), true
			}
		}
	}
	return "", false
}

func nan() float64       { return math.NaN() }
func inf(s int) float64  { return math.Inf(s) }

// RefillInputs overwrites the live input array of p IN PLACE with new values of the same shape (a caller that keeps one
// forcing buffer and refills it for the next station / period) and gives p fresh zero-initialised outputs.
func (p *Prepared) RefillInputs(in [][][]float64) {
	for i := range in {
		for j := range in[i] {
			for k, v := range in[i][j] {
				p.Inputs.Set3(i, j, k, v)
			}
		}
	}
	sh := p.Outputs.Shape()
	p.Outputs = data.NewArray3DFloat64(sh[0], sh[1], sh[2])
}
