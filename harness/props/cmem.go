package props

// C memory for C-backed arrays: guard pages, malloc with canaries.

/*
#include <stdlib.h>
#include <string.h>
#include <sys/mman.h>
#include <unistd.h>

static long pagesz(void) { return sysconf(_SC_PAGESIZE); }

// layout: [guard][data pages][guard]; returns base of the mapping
static void* guarded_map(size_t datapages) {
	long ps = pagesz();
	size_t total = (datapages + 2) * ps;
	char* p = mmap(NULL, total, PROT_READ|PROT_WRITE, MAP_PRIVATE|MAP_ANONYMOUS, -1, 0);
	if (p == MAP_FAILED) return NULL;
	mprotect(p, ps, PROT_NONE);
	mprotect(p + (datapages + 1) * ps, ps, PROT_NONE);
	return p;
}
static void guarded_unmap(void* base, size_t datapages) { munmap(base, (datapages + 2) * pagesz()); }
*/
import "C"

import (
	"unsafe"
)

const canaryBytes = 64
const canaryByte = 0xA5

// CBuf is a caller-owned C buffer of n bytes.
type CBuf struct {
	Ptr   unsafe.Pointer
	N     int
	Mode  string // guard-after | guard-before | malloc
	base  unsafe.Pointer
	pages int
}

// AllocC allocates n bytes of zeroed C memory.
//
//	guard-after : the byte after the buffer is on a PROT_NONE page
//	guard-before: the byte before the buffer is on a PROT_NONE page
//	malloc      : malloc'ed with 64-byte canaries on both sides (ASan red zones apply in -asan builds)
func AllocC(n int, mode string) *CBuf {
	if n == 0 {
		n = 8
	}
	b := &CBuf{N: n, Mode: mode}
	switch mode {
	case "guard-after", "guard-before":
		ps := int(C.pagesz())
		pages := (n + ps - 1) / ps
		base := C.guarded_map(C.size_t(pages))
		if base == nil {
			panic("mmap failed")
		}
		b.base = base
		b.pages = pages
		if mode == "guard-after" {
			b.Ptr = unsafe.Add(base, ps+pages*ps-n)
		} else {
			b.Ptr = unsafe.Add(base, ps)
		}
	default:
		base := C.malloc(C.size_t(n + 2*canaryBytes))
		C.memset(base, canaryByte, C.size_t(n+2*canaryBytes))
		b.base = base
		b.Ptr = unsafe.Add(base, canaryBytes)
		C.memset(b.Ptr, 0, C.size_t(n))
	}
	return b
}

// CanaryIntact reports whether the bytes around a malloc'ed buffer are untouched.
func (b *CBuf) CanaryIntact() bool {
	if b.Mode != "malloc" {
		return true
	}
	lo := unsafe.Slice((*byte)(b.base), canaryBytes)
	hi := unsafe.Slice((*byte)(unsafe.Add(b.Ptr, b.N)), canaryBytes)
	for i := 0; i < canaryBytes; i++ {
		if lo[i] != canaryByte || hi[i] != canaryByte {
			return false
		}
	}
	return true
}

func (b *CBuf) Free() {
	switch b.Mode {
	case "guard-after", "guard-before":
		C.guarded_unmap(b.base, C.size_t(b.pages))
	default:
		C.free(b.base)
	}
	b.Ptr = nil
}

// CSlice views the buffer as []T (harness-side access to the caller's memory).
func CSlice[T any](b *CBuf, n int) []T {
	return unsafe.Slice((*T)(b.Ptr), n)
}
