package props

import (
	"fmt"

	"verif/core"
)

// realSide is one real implementation being driven (Go-backed or C-backed).
type realSide[T Num] struct {
	name   string
	views  []Arr[T]
	store  func() []T // the caller-owned root storage (whole buffer)
	cbuf   *CBuf
	isC    bool
}

type execOpts struct {
	prop      string // violation kind prefix context
	checkBulk bool   // C02 oracles (contiguity truth, aliasing probes, reshape error rules)
	lockstep  bool   // C03: compare side[0] (Go) with side[1] (C) instead of the shadow
}

func mkSide[T Num](b *Backend[T], backing string, root []int, idx int) *realSide[T] {
	n := prod(root)
	s := &realSide[T]{name: backing}
	if backing == "go" {
		buf := make([]T, n)
		s.store = func() []T { return buf }
		s.views = []Arr[T]{b.FromSlice(buf, cpInts(root))}
		return s
	}
	var zero T
	es := int(sizeofT(zero))
	// cdata wraps C `int` / `unsigned int` (4 bytes) for the Go types int / uint
	narrow := b.Type == "int" || b.Type == "uint"
	if narrow {
		es = 4
	}
	mode := []string{"guard-after", "guard-before", "malloc"}[idx%3]
	if backing != "c" {
		mode = backing[2:] // "c:malloc" etc
	}
	cb := AllocC(n*es, mode)
	s.cbuf = cb
	s.isC = true
	s.name = "c/" + mode
	switch {
	case b.Type == "int":
		s.store = func() []T {
			raw := CSlice[int32](cb, n)
			r := make([]T, n)
			for i, v := range raw {
				r[i] = T(v)
			}
			return r
		}
	case b.Type == "uint":
		s.store = func() []T {
			raw := CSlice[uint32](cb, n)
			r := make([]T, n)
			for i, v := range raw {
				r[i] = T(v)
			}
			return r
		}
	default:
		s.store = func() []T { return CSlice[T](cb, n) }
	}
	s.views = []Arr[T]{b.FromC(cb.Ptr, cpInts(root))}
	return s
}

// allocCFor copies vals into freshly malloc'ed C memory laid out as cdata expects for T (4-byte C ints for int/uint).
func allocCFor[T Num](b *Backend[T], vals []T) *CBuf {
	var zero T
	es := int(sizeofT(zero))
	switch b.Type {
	case "int":
		cb := AllocC(len(vals)*4, "malloc")
		raw := CSlice[int32](cb, len(vals))
		for i, v := range vals {
			raw[i] = int32(v)
		}
		return cb
	case "uint":
		cb := AllocC(len(vals)*4, "malloc")
		raw := CSlice[uint32](cb, len(vals))
		for i, v := range vals {
			raw[i] = uint32(v)
		}
		return cb
	}
	cb := AllocC(len(vals)*es, "malloc")
	copy(CSlice[T](cb, len(vals)), vals)
	return cb
}

func sizeofT[T Num](v T) uintptr {
	switch any(v).(type) {
	case float64, int64, uint64, int, uint:
		return 8
	}
	return 4
}

func eqT[T Num](a, b T) bool {
	return a == b || (a != a && b != b)
}

// runProgram executes p; the shadow is re-simulated alongside as the oracle.
func runProgram[T Num](c *core.Ctx, b *Backend[T], p *AProg, sides []*realSide[T], o execOpts) {
	sim := newSim[T](p.Root)
	sim.base = magBase[T](p.Magnitude, p.Backing != "go")
	specialFloats = p.Magnitude == "S"
	defer func() { specialFloats = false }()
	base := sim.base
	model := "array/" + p.Type
	viol := func(kind, format string, a ...interface{}) {
		c.Violate(kind, model, fmt.Sprintf(format, a...))
	}
	// depth / stepped-parent bookkeeping for coverage classes
	type meta struct {
		depth   int
		stepped bool // some ancestor-or-self slice had a step > 1 on a dim of extent > 1
	}
	metas := []meta{{}}

	verifyAll := func(opIdx int, op *AOp) bool {
		ok := true
		for si, side := range sides {
			if o.lockstep && si == 0 {
				continue // the Go side is the reference in lock-step mode
			}
			// (1) whole caller-owned storage
			st := side.store()
			ref := sim.views[0].st.data
			if o.lockstep {
				ref = sides[0].store()
			}
			for k := range ref {
				if !eqT(st[k], ref[k]) {
					viol(o.prop+"storage-mismatch", "after op %d %+v on %s: storage[%d]=%v, expected %v (a write touched a wrong cell or missed its target)", opIdx, *op, side.name, k, st[k], ref[k])
					ok = false
					break
				}
			}
			c.Count("storage_cells_compared", float64(len(ref)))
			if side.cbuf != nil && !side.cbuf.CanaryIntact() {
				viol(o.prop+"canary", "after op %d %+v on %s: bytes outside the caller's buffer were modified", opIdx, *op, side.name)
				ok = false
			}
			// (2) every live view, element by element
			for vi, sv := range sim.views {
				rv := side.views[vi]
				if rv == nil {
					continue
				}
				if !sameShape(rv.Shape(), sv.shape) {
					viol(o.prop+"shape-mismatch", "after op %d on %s: view %d has shape %v, expected %v", opIdx, side.name, vi, rv.Shape(), sv.shape)
					ok = false
					continue
				}
				for f := 0; f < sv.size(); f++ {
					loc := unflatten(sv.shape, f)
					want := sv.st.data[sv.offs[f]]
					if o.lockstep {
						want = sides[0].views[vi].Get(loc)
					}
					if got := rv.Get(loc); !eqT(got, want) {
						viol(o.prop+"view-read-mismatch", "after op %d %+v on %s: view %d (shape %v, chain depth %d, stepped ancestor %v) element %v reads %v, expected %v", opIdx, *op, side.name, vi, sv.shape, metas[vi].depth, metas[vi].stepped, loc, got, want)
						ok = false
						break
					}
				}
				c.Count("view_elements_read", float64(sv.size()))
				if o.checkBulk || o.lockstep {
					wantC := sv.contiguous()
					if o.lockstep {
						wantC = sides[0].views[vi].Contiguous()
					}
					gotC := rv.Contiguous()
					if !o.lockstep {
						c.Count(fmt.Sprintf("contiguity_truth_table/reported_%v_actual_%v", gotC, wantC), 1)
					}
					if gotC != wantC {
						viol(o.prop+"contiguous-wrong", "on %s: view %d (shape %v, storage offsets %v) reports Contiguous()=%v but its elements are adjacent=%v", side.name, vi, sv.shape, headInts(sv.offs, 12), gotC, wantC)
						ok = false
					}
				}
			}
		}
		return ok
	}

	for i := range p.Ops {
		op := &p.Ops[i]
		// shadow step first (gives the oracle state after the op)
		var srcSh *sView[T]
		preContig := sim.views[op.V].contiguous()
		sim.apply(op, &srcSh)
		if sim.lastNew != nil {
			m := meta{depth: metas[op.V].depth, stepped: metas[op.V].stepped}
			if op.K == "slice" {
				m.depth++
				for d, s := range op.Step {
					if s > 1 && op.Dims[d] > 1 {
						m.stepped = true
					}
				}
			}
			metas = append(metas, m)
		}
		c.Count("ops/"+op.K, 1)
		argsAfterOnReference := ""
		for si, side := range sides {
			v := side.views[op.V]
			if v == nil {
				continue
			}
			// real source array for two-array ops
			var src Arr[T]
			if srcSh != nil {
				if op.Src >= 0 {
					src = side.views[op.Src]
				} else {
					buf := append([]T{}, srcSh.st.data...)
					rootDims := cpInts(srcSh.shape)
					if op.SrcRoot != nil {
						rootDims = cpInts(op.SrcRoot)
					}
					// the other array may live in the OTHER kind of memory than the destination (a C-backed source for a
					// Go-backed destination and vice versa): decided by the op's position so that replays agree
					var srcRoot Arr[T]
					wide := (b.Type == "int" || b.Type == "uint") && p.Magnitude != "" && p.Backing == "go" // values beyond a 4-byte C int
					if foreign := (i+len(op.Vals))%3 == 0 && len(buf) > 0 && !wide; foreign && !side.isC && b.FromC != nil {
						cb := allocCFor(b, buf)
						defer cb.Free()
						srcRoot = b.FromC(cb.Ptr, rootDims)
						c.Tag("source:c-backed-into-go-backed")
					} else {
						srcRoot = b.FromSlice(buf, rootDims)
					}
					if op.SrcRoot != nil {
						src = srcRoot.Slice(cpInts(op.SrcLoc), cpInts(srcSh.shape), cpInts(op.SrcStep))
						c.Tag("source:view-of-another-array")
					} else {
						src = srcRoot
					}
				}
			}
			// the index / extent / step slices handed to the library are the caller's: a call must leave them as they were
			// (a caller walking an array re-uses one index slice from call to call)
			aLoc, aDims, aStep := cpInts(op.Loc), cpInts(op.Dims), cpInts(op.Step)
			ok := c.Guard(o.prop+"panic", model, func() {
				switch op.K {
				case "slice":
					side.views = append(side.views, v.Slice(aLoc, aDims, aStep))
				case "set":
					v.Set(aLoc, mkVal(op.Vals[0], base))
				case "set1":
					v.Set1(op.Loc[0], mkVal(op.Vals[0], base))
				case "set2":
					v.Set2(op.Loc[0], op.Loc[1], mkVal(op.Vals[0], base))
				case "set3":
					v.Set3(op.Loc[0], op.Loc[1], op.Loc[2], mkVal(op.Vals[0], base))
				case "apply":
					v.Apply(aLoc, op.Dim, op.St, conv[T](op.Vals, base))
				case "apply1":
					v.Apply1(op.Loc[0], op.St, conv[T](op.Vals, base))
				case "applyslice":
					v.ApplySlice(aLoc, aStep, src)
				case "copyfrom":
					v.CopyFrom(src)
				case "reshape", "reshapefast":
					var r Arr[T]
					var err error
					if op.K == "reshape" {
						r, err = v.Reshape(cpInts(op.NewShape))
					} else {
						r, err = v.ReshapeFast(cpInts(op.NewShape))
					}
					gotErr := err != nil
					if gotErr != sim.lastErr {
						viol(o.prop+"reshape-error-rule", "on %s: %s(%v) of a view with shape %v (contiguous=%v): error=%v, expected error=%v", side.name, op.K, op.NewShape, sim.views[op.V].shape, preContig, gotErr, sim.lastErr)
					}
					if sim.lastNew != nil {
						if gotErr {
							r = nil
						}
						side.views = append(side.views, r)
					} else if sim.lastTransit && !gotErr && r != nil {
						// non-contiguous reshape: a copy; values must be the row-major elements
						want := sim.views[op.V].values()
						if !sameShape(r.Shape(), op.NewShape) {
							viol(o.prop+"reshape-values", "on %s: Reshape(%v) returned shape %v", side.name, op.NewShape, r.Shape())
						} else {
							for f := range want {
								if got := r.Get(unflatten(op.NewShape, f)); !eqT(got, want[f]) {
									viol(o.prop+"reshape-values", "on %s: Reshape(%v) of a non-contiguous view (shape %v): element %d is %v, the row-major element is %v", side.name, op.NewShape, sim.views[op.V].shape, f, got, want[f])
									break
								}
							}
						}
					}
				case "unroll":
					sv := sim.views[op.V]
					u := v.Unroll()
					want := sv.values()
					if len(u) != len(want) {
						viol(o.prop+"unroll-values", "on %s: Unroll() has %d elements, view has %d", side.name, len(u), len(want))
						return
					}
					for f := range want {
						if !eqT(u[f], want[f]) {
							viol(o.prop+"unroll-values", "on %s: Unroll()[%d]=%v, row-major element is %v (view shape %v)", side.name, f, u[f], want[f], sv.shape)
							return
						}
					}
					// aliasing probe (Go-backed contiguous views must alias; the C back-end documents a copy)
					if o.checkBulk && !side.isC && sv.contiguous() && len(u) > 0 && sv.st.id == 0 {
						old := u[0]
						u[0] = mkVal(op.Vals[0], base)
						st := side.store()
						if !eqT(st[sv.offs[0]], mkVal(op.Vals[0], base)) {
							viol(o.prop+"unroll-not-aliasing", "on %s: writing through Unroll() of a contiguous view did not reach the storage", side.name)
						}
						u[0] = old
						c.Count("aliasing_probes", 1)
					}
				case "maxmin":
					sv := sim.views[op.V]
					want := sv.values()
					if len(want) == 0 {
						return
					}
					mx, mn := want[0], want[0]
					for _, x := range want {
						if x > mx {
							mx = x
						}
						if x < mn {
							mn = x
						}
					}
					if g := v.Maximum(); !eqT(g, mx) {
						viol(o.prop+"maximum", "on %s: Maximum()=%v, expected %v", side.name, g, mx)
					}
					if g := v.Minimum(); !eqT(g, mn) {
						viol(o.prop+"minimum", "on %s: Minimum()=%v, expected %v", side.name, g, mn)
					}
				case "abortedsweep":
					if b.ApplyFunc1 == nil {
						return
					}
					c.Tag("history:aborted-sweep")
					n := 0
					func() {
						defer func() { recover() }()
						b.ApplyFunc1(v, v, func(x T) T {
							n++
							if n > op.St {
								panic("callback gives up")
							}
							return x
						})
					}()
				case "bulk":
					if b.Scale == nil {
						return
					}
					fast := v.Contiguous() && src.Contiguous()
					path := "general"
					if fast {
						path = "fast"
					}
					c.Tag("bulk:" + op.Bulk + ":" + path)
					c.Count("bulk/"+op.Bulk+"/"+path, 1)
					switch op.Bulk {
					case "scale":
						b.Scale(v, src, 2)
					case "addto":
						b.AddTo(v, src)
					case "applyfunc1":
						b.ApplyFunc1(v, src, func(x T) T { return x + 1 })
					}
				}
			})
			if !ok {
				return
			}
			_ = si
			// lock-step: what a call does to the caller's index arguments is observable, so it must be the same on both
			// back-ends (no property says a call may not touch them at all, so a single back-end is not judged on it)
			if o.lockstep {
				args := fmt.Sprint(aLoc, aDims, aStep)
				if si == 0 {
					argsAfterOnReference = args
				} else if args != argsAfterOnReference {
					viol(o.prop+"argument-handling-differs", "%s leaves the caller's index arguments (loc dims step) as %s on %s but as %s on %s (passed in: %v %v %v)", op.K, args, side.name, argsAfterOnReference, sides[0].name, op.Loc, op.Dims, op.Step)
					return
				}
				c.Count("argument_slices_compared_between_backends", 1)
			}
		}
		if op.K == "bulk" && b.Scale == nil {
			// int / uint have no bulk helpers: undo the shadow effect by re-deriving from a real side
			// (simplest: stop the history here)
			return
		}
		good := false
		if !c.Guard(o.prop+"panic-on-read", model, func() { good = verifyAll(i, op) }) || !good {
			return
		}
		// aliasing probe for contiguous reshapes (Go and C): a write through the result must be visible
		if (op.K == "reshape" || op.K == "reshapefast") && sim.lastAlias && o.checkBulk {
			nv := sim.views[len(sim.views)-1]
			if nv.size() > 0 {
				for _, side := range sides {
					rv := side.views[len(side.views)-1]
					if rv == nil {
						continue
					}
					loc := unflatten(nv.shape, nv.size()-1)
					old := rv.Get(loc)
					probe := old + 1
					rv.Set(loc, probe)
					if st := side.store(); nv.st.id == 0 && !eqT(st[nv.offs[nv.size()-1]], probe) {
						viol(o.prop+"reshape-not-aliasing", "on %s: a write through the result of reshaping a contiguous view did not reach the storage", side.name)
					}
					rv.Set(loc, old)
					c.Count("aliasing_probes", 1)
				}
			}
		}
	}
	maxDepth, anyStepped := 0, false
	for _, m := range metas {
		if m.depth > maxDepth {
			maxDepth = m.depth
		}
		if m.stepped && m.depth >= 2 {
			anyStepped = true
		}
	}
	c.Class(fmt.Sprintf("%s/%s/nd%d/depth%d/steppedChain%v/mag%s", p.Type, p.Backing, len(p.Root), maxDepth, anyStepped, p.Magnitude))
	if p.Magnitude != "" {
		c.Tag("values-at-type-range-ends")
	}
	if anyStepped {
		c.Count("histories_with_slice_of_stepped_slice", 1)
	}
	c.Count("histories", 1)
}

func headInts(a []int, n int) []int {
	if len(a) > n {
		return a[:n]
	}
	return a
}

// dispatchType runs f with the backend for the named element type.
var arrayTypes = []string{"float64", "float32", "int32", "uint32", "int64", "uint64", "int", "uint"}

func withBackend(typ string, f64 func(*Backend[float64]), f32 func(*Backend[float32]), i32 func(*Backend[int32]), u32 func(*Backend[uint32]),
	i64 func(*Backend[int64]), u64 func(*Backend[uint64]), i func(*Backend[int]), u func(*Backend[uint])) {
	switch typ {
	case "float64":
		f64(backendFloat64())
	case "float32":
		f32(backendFloat32())
	case "int32":
		i32(backendInt32())
	case "uint32":
		u32(backendUint32())
	case "int64":
		i64(backendInt64())
	case "uint64":
		u64(backendUint64())
	case "int":
		i(backendInt())
	case "uint":
		u(backendUint())
	}
}

// execTyped: run program p on the requested sides for its element type.
func execTyped(c *core.Ctx, p *AProg, backings []string, o execOpts) {
	withBackend(p.Type,
		func(b *Backend[float64]) { execOn(c, b, p, backings, o) },
		func(b *Backend[float32]) { execOn(c, b, p, backings, o) },
		func(b *Backend[int32]) { execOn(c, b, p, backings, o) },
		func(b *Backend[uint32]) { execOn(c, b, p, backings, o) },
		func(b *Backend[int64]) { execOn(c, b, p, backings, o) },
		func(b *Backend[uint64]) { execOn(c, b, p, backings, o) },
		func(b *Backend[int]) { execOn(c, b, p, backings, o) },
		func(b *Backend[uint]) { execOn(c, b, p, backings, o) })
}

func execOn[T Num](c *core.Ctx, b *Backend[T], p *AProg, backings []string, o execOpts) {
	var sides []*realSide[T]
	for _, bk := range backings {
		sides = append(sides, mkSide(b, bk, p.Root, c.Idx))
	}
	defer func() {
		for _, s := range sides {
			if s.cbuf != nil {
				s.cbuf.Free()
			}
		}
	}()
	runProgram(c, b, p, sides, o)
}
