package props

// C11 - flow routing conserves volume and honours its storage-discharge relation.

import (
	"fmt"
	"math"
	"sort"

	"github.com/flowmatters/openwater-core/models/routing"
	"verif/core"
)

const srMassBalanceLimit = 1e-3

func init() {
	core.Register(&core.Prop{
		ID:    "C11",
		Level: "exploration",
		Rule: "StorageRouting: every timestep of every run is one evaluation of balance/sign/relation; Muskingum: steady-flow and finite-event cases; Lag: (lag,length) grid incl. lag>length plus chained runs; " +
			"distinct = distinct (model, regime tags) ; non-trivial = some flow > 0",
		Assumptions: []string{
			"StorageRouting net evaporation as the model defines it: E=min(max(0,S0)/dt+I, area*(evap-rain)/dt)",
			"parameters in the stable region (m<=1, 2*k*bias<=dt; Muskingum 2KX<=dt<=2K(1-X))",
			"balance tolerance 10*massBalanceLimit (0.01 m3); relation checked in flow space |q*-Q|*dt<=10*massBalanceLimit, only when 0<Q<available flux and bias=0",
		},
		Workloads: []core.Workload{
			{Name: "storagerouting", Variant: "plain", N: core.Tiered(600, 60000), Run: c11SR},
			{Name: "muskingum", Variant: "plain", N: core.Tiered(600, 40000), Run: c11Musk},
			{Name: "lag", Variant: "plain", N: core.Tiered(13*20+300, 13*20+30000), Run: c11Lag},
		},
		RequireTags: func(string) []string {
			return []string{"lag:lag>len", "lag:padded-row", "musk:steady", "musk:event", "musk:windows"}
		},
		ExpectTags: func(string) []string { return []string{"sr:path1", "sr:path2", "sr:path4", "sr:path6"} },
	})
}

func c11SR(c *core.Ctx) {
	model := "StorageRouting"
	T := c.R.IntRange(5, 80)
	N := 1
	run := GenRun(model, c.R, N, 1, 1, T, 0)
	desc := NewModel(model).Description()
	// regimes
	regime := c.R.Intn(7)
	in := run.Inputs[0]
	iI, iL, iR, iE := indexOf(desc.Inputs, "inflow"), indexOf(desc.Inputs, "lateral"), indexOf(desc.Inputs, "rainfall"), indexOf(desc.Inputs, "evap")
	switch regime {
	case 0: // evaporation exceeding inflow
		for t := 0; t < T; t++ {
			in[iE][t] = c.R.Range(0, 2000)
			in[iR][t] = 0
			in[iI][t] *= 0.01
			in[iL][t] *= 0.01
		}
	case 1: // long zero-flow spell after an event
		for t := T / 3; t < T; t++ {
			in[iI][t], in[iL][t] = 0, 0
		}
	case 2: // big floods
		for t := 0; t < T; t++ {
			in[iI][t] *= 20
		}
	case 3: // no atmospheric exchange
		for t := 0; t < T; t++ {
			in[iE][t], in[iR][t] = 0, 0
		}
	case 6: // a trickle creeping past the dead storage of an (almost) empty reach: outflows of 1e-6..1e-2 m3/s
		q := c.R.LogRange(1e-6, 1e-2)
		for t := 0; t < T; t++ {
			in[iI][t] = q * c.R.Range(0.5, 1.5)
			in[iL][t] = 0
			in[iR][t], in[iE][t] = 0, 0
			if c.R.Bool(0.2) {
				in[iE][t] = c.R.Range(0, 2) // a little evaporation draws the reach back towards its dead storage
			}
		}
		pi := paramIndex(desc, "deadStorage")
		if run.Sets[0][pi][0] == 0 || c.R.Bool(0.5) {
			run.Sets[0][pi][0] = c.R.LogRange(1, 1e4)
		}
	}
	hot := c.R.Bool(0.4)
	if hot {
		// arbitrary non-negative initial storage
		run.States = [][]float64{{c.R.LogRange(1, 1e7), c.R.Range(0, 50), c.R.Range(0, 50)}}
	}
	c.Begin(run)
	ps := run.Sets[0]
	get := func(n string) float64 { return ps[paramIndex(desc, n)][0] }
	bias, k, m, area, dead, dt := get("InflowBias"), get("RoutingConstant"), get("RoutingPower"), get("area"), get("deadStorage"), get("DeltaT")
	routing.VerifRoutingPathCounts()
	out, err := ExecuteFor(c, run)
	if err != nil {
		c.Violate("prepare", model, err.Error())
		return
	}
	if c.R.Bool(0.25) {
		CheckEmptyRun(c, model, run.Sets, out.States)
	}
	paths := routing.VerifRoutingPathCounts()
	for i, n := range paths {
		if n > 0 {
			c.Tag(fmt.Sprintf("sr:path%d", i))
			c.Count(fmt.Sprintf("sr_exit_path_%d", i), float64(n))
		}
	}
	Q := out.Out[0][indexOf(desc.Outputs, "outflow")]
	S := out.Out[0][indexOf(desc.Outputs, "storage")]
	s0 := 0.0
	if hot {
		s0 = run.States[0][0]
	}
	cls := fmt.Sprintf("bias%v/m1%v/dead%v/area%v/hot%v/r%d", bias > 0, m == 1, dead > 0, area > 0, hot, regime)
	c.Class(cls)
	anyFlow := false
	for t := 0; t < T; t++ {
		I, L := in[iI][t], in[iL][t]
		E := math.Min(math.Max(0, s0)/dt+I, area*(in[iE][t]-in[iR][t])/dt)
		q, s1 := Q[t], S[t]
		c.Count("sr_steps", 1)
		if q > 0 {
			anyFlow = true
		}
		if !core.Finite(q) || !core.Finite(s1) {
			c.Violate("sr-nonfinite", model, fmt.Sprintf("t=%d outflow=%v storage=%v", t, q, s1))
			return
		}
		if q < -1e-12 {
			c.Violate("sr-negative-outflow", model, fmt.Sprintf("t=%d outflow=%v", t, q))
		}
		if s1 < -1e-9 {
			c.Violate("sr-negative-storage", model, fmt.Sprintf("t=%d storage=%v", t, s1))
		}
		res := s1 - s0 - (I+L-q-E)*dt
		scale := math.Abs(s0) + math.Abs(s1) + (math.Abs(I)+math.Abs(L)+math.Abs(q)+math.Abs(E))*dt
		tol := 10*srMassBalanceLimit + 1e-11*scale
		c.Max("sr_worst_balance_residual_m3", math.Abs(res))
		if math.Abs(res) > tol {
			regimeTag := "interior"
			if q == 0 {
				regimeTag = "zero-outflow"
			}
			first := "no"
			if t == 0 {
				first = "yes"
			}
			c.Violate("sr-balance", model, fmt.Sprintf("t=%d: S1-S0=%v but (I+L-Q-E)*dt=%v (residual %v m3, tolerance %v); S0=%v S1=%v I=%v L=%v Q=%v E=%v dead=%v bias=%v k=%v m=%v",
				t, s1-s0, (I+L-q-E)*dt, res, tol, s0, s1, I, L, q, E, dead, bias, k, m), "regime", regimeTag, "first_step", first, "dead", fmt.Sprint(dead > 0))
		}
		if bias == 0 && q > 0 {
			avail := math.Max(0, s0)/dt + I - E
			if q < avail*(1-1e-9)-1e-12 && s1 >= dead {
				qstar := math.Pow((s1-dead)/k, 1/m)
				d := math.Abs(qstar-q) * dt
				c.Max("sr_worst_relation_residual_m3", d)
				c.Count("sr_relation_checks", 1)
				tolR := 10*srMassBalanceLimit + 1e-9*math.Abs(q)*dt
				if d > tolR {
					// the solver also stops when its bracket is narrower than convergenceLimit (1e-8 m3/s)
					// in index-flow space: accept if an exact solution lies within 4e-8 of q*.
					newStorage := s1 + q*dt
					F := func(x float64) float64 { return x*dt + k*math.Pow(x, m) + dead - newStorage }
					if F(qstar+4e-8) >= -tolR && F(math.Max(0, qstar-4e-8)) <= tolR {
						c.Count("sr_relation_accepted_by_convergence_limit", 1)
						d = 0
					}
				}
				if d > tolR {
					c.Violate("sr-relation", model, fmt.Sprintf("t=%d: storage %v implies q*=((S-dead)/k)^(1/m)=%v but outflow=%v (|dq|*dt=%v m3); k=%v m=%v dead=%v", t, s1, qstar, q, d, k, m, dead))
				}
			}
		}
		if bias == 0 && q > 1e-9 && dead > 0 && s1 < dead-10*srMassBalanceLimit-1e-9*dead {
			// S = k*Q^m + dead with Q > 0 means S > dead: a positive outflow that leaves less than the dead storage behind
			c.Violate("sr-outflow-below-dead-storage", model, fmt.Sprintf("t=%d: outflow %v leaves storage %v below the dead storage %v (S0=%v I=%v L=%v E=%v k=%v m=%v)", t, q, s1, dead, s0, I, L, E, k, m))
		}
		if q == 0 {
			c.Tag("sr:zero-outflow-step")
		}
		if E >= math.Max(0, s0)/dt+I && E > 0 {
			c.Tag("sr:evap-limited-step")
		}
		s0 = s1
	}
	if !anyFlow {
		c.Trivial()
	}
	// final state must equal the last reported storage / outflow
	if fs := out.States[0]; len(fs) >= 3 {
		if !core.BitEq(fs[0], S[T-1]) {
			c.Violate("sr-final-state", model, fmt.Sprintf("final state S=%v but last reported storage=%v", fs[0], S[T-1]))
		}
	}
}

func c11Musk(c *core.Ctx) {
	model := "Muskingum"
	desc := NewModel(model).Description()
	var ps PSet
	var K, X, dt, a1, a3 float64
	for tries := 0; ; tries++ {
		ps = GenPSet(model, c.R, genOpts{})
		K, X, dt = ps[paramIndex(desc, "K")][0], ps[paramIndex(desc, "X")][0], ps[paramIndex(desc, "DeltaT")][0]
		den := 2*K*(1-X) + dt
		a1 = (dt - 2*K*X) / den
		a3 = (2*K*(1-X) - dt) / den
		if math.Abs(a3) <= 0.995 || tries > 50 {
			break
		}
	}
	iI, iL := indexOf(desc.Inputs, "inflow"), indexOf(desc.Inputs, "lateral")
	kind := c.Idx % 2
	latMode := c.R.Intn(3) // 0: no lateral, 1: lateral only, 2: both
	if kind == 0 {
		// steady flow
		cflow := c.R.LogRange(0.01, 1000)
		frac := []float64{1, 0, c.R.Range(0.1, 0.9)}[latMode]
		T := c.R.IntRange(3, 200)
		fromSteady := c.R.Bool(0.5)
		in := make([][]float64, 2)
		in[iI] = constSeries(T, cflow*frac)
		in[iL] = constSeries(T, cflow*(1-frac))
		run := &MRun{Model: model, N: 1, T: T, Sets: []PSet{ps}, Inputs: [][][]float64{in}}
		if fromSteady {
			run.States = [][]float64{{0, cflow, cflow}}
		}
		cuts := randomCuts(c.R, T)
		c.Begin(map[string]interface{}{"model": model, "run": run, "window_cuts": cuts})
		c.Tag("musk:steady")
		if len(cuts) > 0 {
			c.Tag("musk:windows")
		}
		c.Class(fmt.Sprintf("steady/lat%d/fromSteady%v/windows%d", latMode, fromSteady, len(cuts)))
		if run.States == nil {
			run.States = [][]float64{{0, 0, 0}}
		}
		Q, fin, err := runWindows(run, cuts)
		if err != nil {
			c.Violate("prepare", model, err.Error())
			return
		}
		if c.R.Bool(0.25) {
			CheckEmptyRun(c, model, run.Sets, fin)
		}
		if fromSteady {
			for t := 0; t < T; t++ {
				if math.Abs(Q[t]-cflow) > 1e-9*cflow {
					c.Violate("musk-steady", model, fmt.Sprintf("steady total inflow %v (upstream %v + lateral %v) from the steady state gives outflow[%d]=%v; K=%v X=%v dt=%v", cflow, cflow*frac, cflow*(1-frac), t, Q[t], K, X, dt), "lateral", fmt.Sprint(frac < 1))
					break
				}
			}
		} else {
			bound := math.Pow(math.Abs(a3), float64(T-1))*math.Abs(1-a1)*cflow + 1e-9*cflow
			if math.Abs(Q[T-1]-cflow) > bound {
				c.Violate("musk-steady", model, fmt.Sprintf("steady total inflow %v (upstream %v + lateral %v) from rest: outflow[%d]=%v, |error| %v exceeds the transient bound %v; K=%v X=%v dt=%v", cflow, cflow*frac, cflow*(1-frac), T-1, Q[T-1], math.Abs(Q[T-1]-cflow), bound, K, X, dt), "lateral", fmt.Sprint(frac < 1))
			}
		}
		for t := 0; t < T; t++ {
			if Q[t] < -1e-9*cflow {
				c.Violate("musk-negative", model, fmt.Sprintf("outflow[%d]=%v", t, Q[t]))
				break
			}
		}
		c.Count("musk_steps", float64(T))
		return
	}
	// finite event followed by zeros
	Te := c.R.IntRange(1, 40)
	tail := 50
	if math.Abs(a3) > 0 {
		tail = int(math.Ceil(math.Log(1e-14)/math.Log(math.Abs(a3)))) + 5
	}
	if tail > 8000 {
		tail = 8000
	}
	T := Te + tail
	in := make([][]float64, 2)
	in[iI] = make([]float64, T)
	in[iL] = make([]float64, T)
	ev := flowSeries(c.R, Te, 50)
	lt := flowSeries(c.R, Te, 20)
	for t := 0; t < Te; t++ {
		if latMode != 1 {
			in[iI][t] = ev[t]
		}
		if latMode != 0 {
			in[iL][t] = lt[t]
		}
	}
	run := &MRun{Model: model, N: 1, T: T, Sets: []PSet{ps}, Inputs: [][][]float64{in}}
	var cuts []int
	if c.R.Bool(0.5) {
		// windows inside the event, where lateral / upstream inflow is non-zero
		for k := 0; k < c.R.IntRange(1, 3) && Te > 1; k++ {
			cuts = append(cuts, c.R.IntRange(1, Te))
		}
		sort.Ints(cuts)
		uniq := cuts[:0]
		for i, v := range cuts {
			if i == 0 || v != cuts[i-1] {
				uniq = append(uniq, v)
			}
		}
		cuts = uniq
	}
	c.Begin(map[string]interface{}{"model": model, "run": run, "window_cuts": cuts})
	c.Tag("musk:event")
	if len(cuts) > 0 {
		c.Tag("musk:windows")
	}
	c.Class(fmt.Sprintf("event/lat%d/Te%d/windows%d", latMode, Te/10, len(cuts)))
	run.States = [][]float64{{0, 0, 0}}
	Qs, _, err := runWindows(run, cuts)
	if err != nil {
		c.Violate("prepare", model, err.Error())
		return
	}
	sumIn, sumOut := 0.0, 0.0
	for t := 0; t < T; t++ {
		sumIn += in[iI][t] + in[iL][t]
		sumOut += Qs[t]
	}
	if sumIn == 0 {
		c.Trivial()
	}
	c.Count("musk_steps", float64(T))
	resid := math.Abs(sumOut - sumIn)
	// what is still in the reach after the tail is bounded by a3^tail * max flow
	if resid > 1e-9*sumIn+1e-12 {
		c.Violate("musk-volume", model, fmt.Sprintf("event volume in (upstream+lateral) = %v*dt but outflow volume = %v*dt after %d zero steps (a3=%v); K=%v X=%v dt=%v", sumIn, sumOut, tail, a3, K, X, dt), "lateral", fmt.Sprint(latMode != 0))
	}
	if sumIn > 0 {
		c.Max("musk_worst_volume_rel_residual", resid/sumIn)
	}
}

func c11Lag(c *core.Ctx) {
	model := "Lag"
	var lag, T int
	chained := false
	if c.Idx < 13*20 {
		lag, T = c.Idx/20, c.Idx%20+1
	} else {
		lag, T = c.R.IntRange(0, 12), c.R.IntRange(1, 20)
		chained = true
	}
	buf := make([]float64, lag)
	for i := range buf {
		buf[i] = float64(1000 + i) // unique ids
	}
	// the state row may be wider than the lag (rows of a multi-cell state array are padded to the widest cell)
	rowPad := 0
	if chained && c.R.Bool(0.5) {
		rowPad = c.R.IntRange(1, 5)
		c.Tag("lag:padded-row")
	}
	nseg := 1
	if chained {
		nseg = c.R.IntRange(2, 5)
	}
	var series []float64
	var lens []int
	for s := 0; s < nseg; s++ {
		l := T
		if s > 0 {
			l = c.R.IntRange(1, 20)
		}
		lens = append(lens, l)
		for k := 0; k < l; k++ {
			series = append(series, float64(len(series)+1))
		}
	}
	NC := 1
	if c.R.Bool(0.35) {
		NC = c.R.IntRange(2, 4)
	}
	c.Begin(map[string]interface{}{"model": model, "lag": lag, "cells": NC, "segment_lengths": lens, "initial_buffer": buf, "state_row_padding": rowPad, "inflow": "1,2,3,... (unique ids; cell k: +1000k)"})
	c.Class(fmt.Sprintf("lag%d/T%d/seg%d", lag, T, nseg))
	if lag > T {
		c.Tag("lag:lag>len")
	}
	if lag == 0 && T == 1 {
		c.Trivial()
	}
	// reference: whole history = buffer ++ inflow ; out[t] = hist[t]. Several cells in one call (the same lag, every
	// value of cell k larger by 1000*k than cell 0's): the buffers of the cells are neighbouring rows of one state array
	hist := append(append([]float64{}, buf...), series...)
	off := func(k int, v float64) float64 { return v + 1000*float64(k) }
	states := make([][]float64, NC)
	for k := range states {
		row := make([]float64, 0, lag+rowPad)
		for _, v := range buf {
			row = append(row, off(k, v))
		}
		states[k] = append(row, make([]float64, rowPad)...)
	}
	if NC > 1 {
		c.Tag("lag:several-cells")
	}
	pos := 0
	for s, l := range lens {
		in := series[pos : pos+l]
		blocks := make([][][]float64, NC)
		for k := range blocks {
			ser := make([]float64, l)
			for t := range ser {
				ser[t] = off(k, in[t])
			}
			blocks[k] = [][]float64{ser}
		}
		run := &MRun{Model: model, N: NC, T: l, Sets: []PSet{{{float64(lag)}}}, Inputs: blocks, States: states}
		out, err := ExecuteFor(c, run)
		if err != nil {
			c.Violate("prepare", model, err.Error())
			return
		}
		for k := 0; k < NC; k++ {
			for t := 0; t < l; t++ {
				want := off(k, hist[pos+t])
				if out.Out[k][0][t] != want {
					c.Violate("lag-output", model, fmt.Sprintf("lag=%d segment %d (length %d) cell %d of %d: outflow[%d]=%v, expected %v (the value that entered %d steps earlier)", lag, s, l, k, NC, t, out.Out[k][0][t], want, lag), "lag_gt_len", fmt.Sprint(lag > l))
					return
				}
			}
			// final buffer = last `lag` values of history so far
			end := lag + pos + l
			wantBuf := hist[end-lag : end]
			got := out.States[k]
			for i := 0; i < lag; i++ {
				if i >= len(got) || got[i] != off(k, wantBuf[i]) {
					c.Violate("lag-buffer", model, fmt.Sprintf("lag=%d segment %d (length %d) cell %d of %d: final buffer %v, expected cell 0's %v (+%d)", lag, s, l, k, NC, got, wantBuf, 1000*k), "lag_gt_len", fmt.Sprint(lag > l))
					return
				}
			}
		}
		states = out.States
		pos += l
		c.Count("lag_segments", 1)
	}
	if c.R.Bool(0.25) && len(states) > 0 {
		// an empty window delays nothing and keeps the buffer
		CheckEmptyRun(c, model, []PSet{{{float64(lag)}}}, states)
	}
}

// runWindows executes run either in one call or as consecutive calls over windows that carry
// the returned states forward (bounds = cut positions); returns the concatenated first output.
func runWindows(run *MRun, cuts []int) ([]float64, [][]float64, error) {
	if len(cuts) == 0 {
		o, err := Execute(run)
		if err != nil {
			return nil, nil, err
		}
		return o.Out[0][0], o.States, nil
	}
	bounds := append(append([]int{0}, cuts...), run.T)
	var out []float64
	states := run.States
	for i := 0; i+1 < len(bounds); i++ {
		a, b := bounds[i], bounds[i+1]
		if b <= a {
			continue
		}
		seg := &MRun{Model: run.Model, N: 1, T: b - a, Sets: run.Sets, Inputs: sliceT(run.Inputs, a, b), States: states}
		o, err := Execute(seg)
		if err != nil {
			return nil, nil, err
		}
		out = append(out, o.Out[0][0]...)
		states = o.States
	}
	return out, states, nil
}

func randomCuts(r *core.Rand, T int) []int {
	if T < 2 || r.Bool(0.5) {
		return nil
	}
	n := r.IntRange(1, 3)
	set := map[int]bool{}
	for i := 0; i < n; i++ {
		set[r.IntRange(1, T-1)] = true
	}
	var c []int
	for k := range set {
		c = append(c, k)
	}
	sort.Ints(c)
	return c
}
