package props

// Independent implementation of daily GR4J (Perrin, Michel, Andreassian 2003; airGR formulation).
// It shares no code with /repo/models/rr/gr4j.go.

import "math"

type gr4jRef struct {
	x1, x2, x3, x4 float64
	S, R           float64
	uh1, uh2       []float64 // ordinates
	st9, st1       []float64 // convolution stores (water still to be released), index 0 = next step
}

func ss1(t, x4 float64) float64 {
	switch {
	case t <= 0:
		return 0
	case t < x4:
		return math.Pow(t/x4, 2.5)
	}
	return 1
}

func ss2(t, x4 float64) float64 {
	switch {
	case t <= 0:
		return 0
	case t <= x4:
		return 0.5 * math.Pow(t/x4, 2.5)
	case t < 2*x4:
		return 1 - 0.5*math.Pow(2-t/x4, 2.5)
	}
	return 1
}

func newGR4JRef(x1, x2, x3, x4 float64) *gr4jRef {
	g := &gr4jRef{x1: x1, x2: x2, x3: x3, x4: x4}
	n1 := int(math.Ceil(x4))
	n2 := int(math.Ceil(2 * x4))
	g.uh1 = make([]float64, n1)
	g.uh2 = make([]float64, n2)
	for j := 1; j <= n1; j++ {
		g.uh1[j-1] = ss1(float64(j), x4) - ss1(float64(j-1), x4)
	}
	for j := 1; j <= n2; j++ {
		g.uh2[j-1] = ss2(float64(j), x4) - ss2(float64(j-1), x4)
	}
	g.st9 = make([]float64, n1)
	g.st1 = make([]float64, n2)
	return g
}

// step advances one day and returns total runoff Q and the exchange term F that was applied.
func (g *gr4jRef) step(P, E float64) (Q, F float64) {
	var Pn, Ps, Es, En float64
	if P > E {
		Pn = P - E
		w := math.Tanh(math.Min(Pn/g.x1, 13))
		sr := g.S / g.x1
		Ps = g.x1 * (1 - sr*sr) * w / (1 + sr*w)
	} else {
		En = E - P
		w := math.Tanh(math.Min(En/g.x1, 13))
		sr := g.S / g.x1
		Es = g.S * (2 - sr) * w / (1 + (1-sr)*w)
	}
	g.S = g.S - Es + Ps
	perc := g.S * (1 - math.Pow(1+math.Pow(4.0/9.0*g.S/g.x1, 4), -0.25))
	g.S -= perc
	Pr := perc + (Pn - Ps)
	for i := range g.st9 {
		g.st9[i] += 0.9 * Pr * g.uh1[i]
	}
	for i := range g.st1 {
		g.st1[i] += 0.1 * Pr * g.uh2[i]
	}
	Q9 := g.st9[0]
	Q1 := g.st1[0]
	copy(g.st9, g.st9[1:])
	g.st9[len(g.st9)-1] = 0
	copy(g.st1, g.st1[1:])
	g.st1[len(g.st1)-1] = 0
	F = g.x2 * math.Pow(g.R/g.x3, 3.5)
	g.R = math.Max(0, g.R+Q9+F)
	Qr := g.R * (1 - math.Pow(1+math.Pow(g.R/g.x3, 4), -0.25))
	g.R -= Qr
	Qd := math.Max(0, Q1+F)
	return Qr + Qd, F
}
