package props

// C17 - the JSON single-model runner is equivalent to a direct run and always answers.

import (
	"os"
	"bytes"
	"encoding/json"
	"fmt"
	"io"
	"math"
	"os/exec"
	"strings"

	"github.com/flowmatters/openwater-core/data"
	owjs "github.com/flowmatters/openwater-core/io/json"
	"github.com/flowmatters/openwater-core/sim"
	"verif/core"
)

func init() {
	core.Register(&core.Prop{
		ID:    "C17",
		Level: "exploration",
		Rule: "valid: request for a catalogued model with a random subset/order of parameters and inputs, answered by the real ow-single binary (child process) and by sim.RunSingleModelJSON in-process, compared with a direct one-cell Run; " +
			"sequence: several requests (complete, partial, members left out, empty, other model) answered one after another by sim.RunSingleModelJSON in ONE process, each answer compared with the answer a fresh ow-single process gives to the same bytes (outputs, states, whether a problem is described, which parameters/inputs the log names); " +
			"hostile: generated request classes (random bytes, truncations, structural mutations, unknown/empty model, missing or unequal-length inputs, super/subsets) - exit status 0, exactly one JSON document, log names the problem; jsonsafe: JsonSafeArray/JsonSafeValue on random arrays and views; " +
			"distinct = distinct (class, model) ; non-trivial = request non-empty",
		Assumptions: []string{
			"numeric values stay inside the model domains (robustness is about malformed/incomplete requests, not about physically meaningless parameters)",
			"initial states are the model's own InitialiseStates(1) (the runner ignores supplied states; the statement does not mention them)",
			"log lines other than those required (e.g. the empty first entry) are not constrained",
		},
		Needs: []string{"owsingle"},
		Workloads: []core.Workload{
			{Name: "valid", Variant: "plain", N: core.Tiered(41*6, 41*100), Run: c17Valid},
			{Name: "hostile", Variant: "plain", N: core.Tiered(400, 20000), Run: c17Hostile},
			{Name: "jsonsafe", Variant: "plain", N: core.Tiered(200, 5000), Run: c17JsonSafe},
			{Name: "sequence", Variant: "plain", N: core.Tiered(80, 3000), Run: c17Sequence},
		},
	})
}

type jReq struct {
	Name       string       `json:"Name"`
	Inputs     []jInput     `json:"Inputs,omitempty"`
	States     []jNameValue `json:"States,omitempty"`
	Parameters []jNameValue `json:"Parameters,omitempty"`
}
type jInput struct {
	Name   string    `json:"Name"`
	Values []float64 `json:"Values"`
}
type jNameValue struct {
	Name  string  `json:"Name"`
	Value float64 `json:"Value"`
}

type jResp struct {
	Log        []string `json:"Log"`
	RunResults struct {
		Outputs interface{} `json:"Outputs"`
		States  interface{} `json:"States"`
	} `json:"RunResults"`
}

// runOwSingle feeds req to the real ow-single binary.
// owSingleEnv: the environment of the next ow-single child (the answer may not depend on it): set per case.
var owSingleEnv []string

func runOwSingle(req []byte) (stdout, stderr []byte, exit int, err error) {
	cmd := exec.Command("/verif/bin/ow-single")
	cmd.Stdin = bytes.NewReader(req)
	if len(owSingleEnv) > 0 {
		cmd.Env = append(os.Environ(), owSingleEnv...)
	}
	var so, se bytes.Buffer
	cmd.Stdout, cmd.Stderr = &so, &se
	e := cmd.Run()
	exit = 0
	if e != nil {
		if ee, ok := e.(*exec.ExitError); ok {
			exit = ee.ExitCode()
		} else {
			return nil, nil, -1, e
		}
	}
	return so.Bytes(), se.Bytes(), exit, nil
}

// exactlyOneJSON strictly decodes one document and requires EOF after it.
func exactlyOneJSON(b []byte) (*jResp, error) {
	dec := json.NewDecoder(bytes.NewReader(b))
	var r jResp
	if err := dec.Decode(&r); err != nil {
		return nil, fmt.Errorf("stdout is not a JSON document: %v", err)
	}
	var extra json.RawMessage
	if err := dec.Decode(&extra); err != io.EOF {
		return nil, fmt.Errorf("stdout has data after the JSON document")
	}
	return &r, nil
}

func jnum(v interface{}) (float64, bool) {
	switch x := v.(type) {
	case float64:
		return x, true
	case string:
		switch x {
		case "NaN":
			return math.NaN(), true
		case "+Inf":
			return math.Inf(1), true
		case "-Inf":
			return math.Inf(-1), true
		}
	}
	return 0, false
}

func tableModel(model string) bool {
	return len(NewModel(model).Description().Dimensions) > 0
}

func c17Valid(c *core.Ctx) {
	names := ModelNames()
	model := names[c.Idx%len(names)]
	desc := NewModel(model).Description()
	T := c.R.IntRange(1, 25)
	wc := 0
	if needsWidthClass(model) {
		wc = 1 + c.R.Intn(13)
	}
	ps := GenPSet(model, c.R, genOpts{widthClass: wc})
	in := GenInputs(model, c.R, T, ps)
	// a corrupt record: one step (not the first) of every series holds an absurd but valid JSON number. For these
	// (non-iterative) kernels the direct run answers NaN or an infinity at that step only - the runner must deliver it as
	// the strings NaN / +Inf / -Inf in the middle of ordinary numbers
	corrupt := false
	switch model {
	case "BankErosion", "ClimateVariables", "DynamicSednetGully", "DynamicSednetGullyAlt", "USLEFineSedimentGeneration", "ApplyScalingFactor", "Sum":
		if T >= 3 && c.R.Bool(0.6) {
			k := c.R.IntRange(1, T-1)
			for j := range in {
				in[j][k] = pick(c.R, 1e200, 1e200, -1e200, 1.7e308)
			}
			corrupt = true
		}
	}
	req := jReq{Name: model}
	// random subset and order of parameters / inputs
	suppliedP := map[string]bool{}
	for _, i := range c.R.Perm(len(desc.Parameters)) {
		if len(desc.Parameters[i].Dimensions) > 0 {
			continue
		}
		if c.R.Bool(0.8) {
			req.Parameters = append(req.Parameters, jNameValue{desc.Parameters[i].Name, ps[i][0]})
			suppliedP[desc.Parameters[i].Name] = true
		}
	}
	suppliedI := map[string]bool{}
	for _, i := range c.R.Perm(len(desc.Inputs)) {
		if c.R.Bool(0.85) || len(suppliedI) == 0 {
			req.Inputs = append(req.Inputs, jInput{desc.Inputs[i], in[i]})
			suppliedI[desc.Inputs[i]] = true
		}
	}
	if c.R.Bool(0.2) {
		req.Parameters = append(req.Parameters, jNameValue{"notAParameter", 3})
	}
	body, _ := json.Marshal(req)
	c.Begin(map[string]interface{}{"model": model, "request": json.RawMessage(body)})
	isTable := tableModel(model)
	c.Class(fmt.Sprintf("valid/%s/missingP%v/missingI%v", model, len(suppliedP) < len(desc.Parameters), len(suppliedI) < len(desc.Inputs)))
	// the process environment is not part of the request: three quarters of the children run on 1, 2 or 3 processors,
	// in another time zone and locale
	owSingleEnv = nil
	if k := (c.Idx / len(names)) % 4; k > 0 {
		owSingleEnv = []string{fmt.Sprintf("GOMAXPROCS=%d", k), "TZ=" + []string{"America/New_York", "Australia/Sydney", "Pacific/Kiritimati"}[k-1], "LANG=de_DE.UTF-8", "LC_ALL=de_DE.UTF-8"}
		c.Tag(fmt.Sprintf("env:gomaxprocs=%d", k))
	}
	defer func() { owSingleEnv = nil }()
	if corrupt {
		c.Tag("valid:corrupt-record-in-series")
	}
	attrs := []string{"table_model", fmt.Sprint(isTable)}
	for _, p := range desc.Parameters {
		if !suppliedP[p.Name] && len(p.Dimensions) == 0 {
			attrs = append(attrs, "missing:"+p.Name, "true")
		}
	}
	so, se, exit, err := runOwSingle(body)
	c.Count("child_processes", 1)
	if err != nil {
		c.Inconclusive("cannot run ow-single: " + err.Error())
		return
	}
	if exit != 0 {
		c.Violate("runner-crashed", model, fmt.Sprintf("ow-single exited with status %d on a valid request; stderr: %s", exit, headStr(string(se), 600)), attrs...)
		return
	}
	resp, perr := exactlyOneJSON(so)
	if perr != nil {
		c.Violate("not-one-json-document", model, fmt.Sprintf("%v; stdout: %s", perr, headStr(string(so), 300)), attrs...)
		return
	}
	// expected: direct one-cell run with named-or-default parameters and supplied-or-zero inputs
	eps := make(PSet, len(desc.Parameters))
	for i, p := range desc.Parameters {
		v := p.Default
		if suppliedP[p.Name] {
			v = ps[i][0]
		}
		eps[i] = []float64{v}
	}
	ein := make([][]float64, len(desc.Inputs))
	for i, n := range desc.Inputs {
		if suppliedI[n] {
			ein[i] = in[i]
		} else {
			ein[i] = make([]float64, T)
		}
	}
	if isTable {
		// table parameters cannot be expressed in a request: only robustness was asserted above
		c.Count("table_model_requests", 1)
		return
	}
	// defaults may lie outside a kernel's domain (e.g. capacity 0): guard the direct run in a child-free way
	var direct *MOut
	var derr error
	directPanic := ""
	func() {
		// (only reachable when the model runs its cells on the calling goroutine: a panic on a cell goroutine ends the
		// process, and the runner, built from the same library, would have crashed before we got here)
		defer func() {
			if r := recover(); r != nil {
				directPanic = fmt.Sprint(r)
			}
		}()
		direct, derr = Execute(&MRun{Model: model, N: 1, T: T, Sets: []PSet{eps}, Inputs: [][][]float64{ein}})
	}()
	if directPanic != "" {
		// the direct one-cell Run has no answer for these parameter values (a default outside the kernel's domain): the
		// runner's one document must then describe a problem instead of results
		described := false
		for _, l := range resp.Log {
			if strings.TrimSpace(l) != "" {
				described = true
			}
		}
		if !described {
			c.Violate("problem-not-described", model, fmt.Sprintf("a direct run panics (%s) but the runner's log is empty", headStr(directPanic, 200)), attrs...)
		}
		c.Count("requests_whose_direct_run_panics", 1)
		return
	}
	if derr != nil {
		c.Violate("prepare", model, derr.Error())
		return
	}
	// outputs: map name -> series
	om, ok := resp.RunResults.Outputs.(map[string]interface{})
	if !ok {
		c.Violate("response-shape", model, fmt.Sprintf("RunResults.Outputs is %T, expected an object keyed by output name", resp.RunResults.Outputs))
		return
	}
	for j, n := range desc.Outputs {
		arr, ok := om[n].([]interface{})
		if !ok || len(arr) != T {
			c.Violate("response-shape", model, fmt.Sprintf("output %s: got %T of length %d, expected %d values", n, om[n], len(arr), T))
			return
		}
		for t := 0; t < T; t++ {
			v, ok := jnum(arr[t])
			want := direct.Out[0][j][t]
			if !ok || !(core.BitEq(v, want) || (math.IsNaN(v) && math.IsNaN(want))) {
				c.Violate("output-differs", model, fmt.Sprintf("output %s[t=%d]: runner %v, direct run %v", n, t, arr[t], want))
				return
			}
			if math.IsNaN(want) || math.IsInf(want, 0) {
				c.Count("non_finite_values_encoded", 1)
			}
		}
	}
	sm, ok := resp.RunResults.States.(map[string]interface{})
	if len(desc.States) > 0 {
		if !ok {
			c.Violate("response-shape", model, fmt.Sprintf("RunResults.States is %T, expected an object keyed by state name", resp.RunResults.States))
			return
		}
		for j, n := range desc.States {
			if j >= len(direct.States[0]) {
				break // fewer state values than names (Lag with no delay)
			}
			v, ok := jnum(sm[n])
			want := direct.States[0][j]
			if !ok || !(core.BitEq(v, want) || (math.IsNaN(v) && math.IsNaN(want))) {
				c.Violate("state-differs", model, fmt.Sprintf("state %s: runner %v, direct run %v", n, sm[n], want))
				return
			}
		}
	}
	// log: one entry naming each missing parameter / input, none naming a supplied one.
	// "Names X" is decided without relying on the wording: an entry names X if it contains X as a
	// whole word and - when that alone is ambiguous (X is also an ordinary word of the messages, or the
	// entry is explained by another missing item) - by a paired request that differs only in X.
	logAll := strings.Join(resp.Log, "\n")
	runLog := func(r jReq) []string {
		b, _ := json.Marshal(r)
		so2, _, ex, err := runOwSingle(b)
		c.Count("child_processes", 1)
		if err != nil || ex != 0 {
			return nil
		}
		r2, err := exactlyOneJSON(so2)
		if err != nil {
			return nil
		}
		return r2.Log
	}
	withParam := func(r jReq, name string, v float64) jReq {
		r2 := r
		r2.Parameters = append(append([]jNameValue{}, r.Parameters...), jNameValue{name, v})
		return r2
	}
	withInput := func(r jReq, name string) jReq {
		r2 := r
		r2.Inputs = append(append([]jInput{}, r.Inputs...), jInput{name, make([]float64, T)})
		return r2
	}
	containing := func(log []string, name string) []string {
		var res []string
		for _, l := range log {
			if logNames([]string{l}, name) {
				res = append(res, l)
			}
		}
		return res
	}
	inLog := func(log []string, e string) bool {
		for _, l := range log {
			if l == e {
				return true
			}
		}
		return false
	}
	generic := map[string]bool{"input": true, "inputs": true, "parameter": true, "parameters": true, "output": true, "default": true, "using": true, "missing": true, "value": true, "series": true, "model": true, "found": true, "not": true}
	type item struct {
		name    string
		isParam bool
		val     float64
	}
	var missing []item
	for i, p := range desc.Parameters {
		if !suppliedP[p.Name] && len(p.Dimensions) == 0 {
			missing = append(missing, item{p.Name, true, ps[i][0]})
		}
	}
	for _, n := range desc.Inputs {
		if !suppliedI[n] {
			missing = append(missing, item{n, false, 0})
		}
	}
	plus := func(it item) []string {
		if it.isParam {
			return runLog(withParam(req, it.name, it.val))
		}
		return runLog(withInput(req, it.name))
	}
	for _, it := range missing {
		cands := containing(resp.Log, it.name)
		kind := map[bool]string{true: "missing-parameter-not-reported", false: "missing-input-not-reported"}[it.isParam]
		what := map[bool]string{true: "parameter", false: "input"}[it.isParam]
		if len(cands) == 0 {
			c.Violate(kind, model, fmt.Sprintf("%s %s was not supplied but no log entry mentions it: %q", what, it.name, logAll))
			continue
		}
		if generic[strings.ToLower(it.name)] || len(missing) > 1 {
			// some entry containing the name must be there BECAUSE this item is missing
			lp := plus(it)
			if lp != nil {
				caused := false
				for _, e := range cands {
					if !inLog(lp, e) {
						caused = true
					}
				}
				if !caused {
					c.Violate(kind, model, fmt.Sprintf("%s %s was not supplied; the log entries containing its name (%q) are all still there when it is supplied, so none of them reports it: %q", what, it.name, cands, logAll))
				}
			}
		}
	}
	var logB []string
	haveB := false
	checkSupplied := func(name, what, kind string) {
		S := containing(resp.Log, name)
		if len(S) == 0 {
			return
		}
		if !haveB {
			full := req
			for _, it := range missing {
				if it.isParam {
					full = withParam(full, it.name, it.val)
				} else {
					full = withInput(full, it.name)
				}
			}
			logB = runLog(full)
			haveB = true
		}
		for _, e := range S {
			explained := inLog(logB, e) // a line that is there whatever is supplied
			for _, it := range missing {
				if explained {
					break
				}
				if lp := plus(it); lp != nil && !inLog(lp, e) {
					explained = true // the entry reports another, missing item
				}
			}
			if !explained {
				c.Violate(kind, model, fmt.Sprintf("%s %s was supplied but the log has an entry naming it: %q", what, name, e))
			}
		}
	}
	for _, p := range desc.Parameters {
		if suppliedP[p.Name] {
			checkSupplied(p.Name, "parameter", "supplied-parameter-reported-missing")
		}
	}
	for _, n := range desc.Inputs {
		if suppliedI[n] {
			checkSupplied(n, "input", "supplied-input-reported-missing")
		}
	}
	// in-process runner (nested arrays instead of maps) must agree as well
	var buf bytes.Buffer
	if c.Guard("runner-panic-in-process", model, func() { sim.RunSingleModelJSON(bytes.NewReader(body), &buf, false) }) {
		var r2 jResp
		if err := json.Unmarshal(buf.Bytes(), &r2); err != nil {
			c.Violate("not-one-json-document", model, "in-process runner: "+err.Error())
		} else if arr, ok := r2.RunResults.Outputs.([]interface{}); !ok || len(arr) != len(desc.Outputs) {
			c.Violate("response-shape", model, fmt.Sprintf("in-process runner (splitOutputs=false): Outputs has %d rows, expected %d", len(arr), len(desc.Outputs)))
		} else {
			for j := range desc.Outputs {
				row, _ := arr[j].([]interface{})
				if len(row) != T {
					c.Violate("response-shape", model, fmt.Sprintf("in-process runner: output row %d has %d values, expected %d", j, len(row), T))
					break
				}
				for t := 0; t < T; t++ {
					v, ok := jnum(row[t])
					want := direct.Out[0][j][t]
					if !ok || !(core.BitEq(v, want) || (math.IsNaN(v) && math.IsNaN(want))) {
						c.Violate("output-differs", model, fmt.Sprintf("in-process runner output[%d][%d]=%v, direct run %v", j, t, row[t], want))
						break
					}
				}
			}
		}
	}
	c.Count("valid_requests_compared", 1)
}

// logNames: some log entry contains name as a whole word
func logNames(log []string, name string) bool {
	for _, l := range log {
		idx := 0
		for {
			i := strings.Index(l[idx:], name)
			if i < 0 {
				break
			}
			i += idx
			before := i == 0 || !isWordByte(l[i-1])
			after := i+len(name) == len(l) || !isWordByte(l[i+len(name)])
			if before && after {
				return true
			}
			idx = i + 1
		}
	}
	return false
}

func isWordByte(b byte) bool {
	return b == '_' || (b >= '0' && b <= '9') || (b >= 'a' && b <= 'z') || (b >= 'A' && b <= 'Z')
}

func headStr(s string, n int) string {
	if len(s) > n {
		return s[:n] + "..."
	}
	return s
}

// ---------------------------------------------------------------------------

func c17Hostile(c *core.Ctx) {
	names := ModelNames()
	classes := []string{"random-bytes", "truncated", "wrong-types", "unknown-model", "empty-name", "no-inputs", "unequal-inputs", "empty-object", "extra-keys", "deep-nesting", "zero-length-inputs", "duplicate-keys", "setup-panic"}
	class := classes[c.Idx%len(classes)]
	model := names[c.R.Intn(len(names))]
	for tableModel(model) {
		model = names[c.R.Intn(len(names))]
	}
	desc := NewModel(model).Description()
	T := c.R.IntRange(1, 12)
	ps := GenPSet(model, c.R, genOpts{widthClass: 1 + c.R.Intn(13)})
	in := GenInputs(model, c.R, T, ps)
	valid := jReq{Name: model}
	for i, p := range desc.Parameters {
		valid.Parameters = append(valid.Parameters, jNameValue{p.Name, ps[i][0]})
	}
	for i, n := range desc.Inputs {
		valid.Inputs = append(valid.Inputs, jInput{n, in[i]})
	}
	vb, _ := json.Marshal(valid)
	var body []byte
	mustMention := "" // a word the log must contain
	needProblem := true
	switch class {
	case "random-bytes":
		n := c.R.IntRange(0, 200)
		body = make([]byte, n)
		for i := range body {
			body[i] = byte(c.R.Intn(256))
		}
	case "truncated":
		body = vb[:c.R.Intn(len(vb))]
	case "wrong-types":
		muts := []string{`{"Name": 5}`, `{"Name":"` + model + `","Inputs": 7}`, `{"Name":"` + model + `","Inputs":[{"Name":"x","Values":"abc"}]}`,
			`{"Name":"` + model + `","Parameters":{"a":1}}`, `[1,2,3]`, `"just a string"`, `null`, `{"Name":"` + model + `","Inputs":[{"Name":3,"Values":[1]}]}`, `{"Name":["` + model + `"]}`, `12`, `true`}
		body = []byte(muts[c.R.Intn(len(muts))])
		if string(body) == "null" {
			mustMention = ""
		}
	case "unknown-model":
		valid.Name = []string{"NoSuchModel", "gr4j", "GR4J ", "Sacramento2", "été"}[c.R.Intn(5)]
		body, _ = json.Marshal(valid)
		mustMention = strings.TrimSpace(valid.Name)
	case "empty-name":
		valid.Name = ""
		body, _ = json.Marshal(valid)
	case "empty-object":
		body = []byte(`{}`)
	case "no-inputs":
		valid.Inputs = nil
		body, _ = json.Marshal(valid)
		mustMention = "input"
	case "zero-length-inputs":
		for i := range valid.Inputs {
			valid.Inputs[i].Values = []float64{}
		}
		body, _ = json.Marshal(valid)
		needProblem = false
	case "unequal-inputs":
		if len(valid.Inputs) < 2 {
			// single-input model: nothing to make unequal; use a two-input model instead
			model = "Sum"
			desc = NewModel(model).Description()
			valid = jReq{Name: model, Inputs: []jInput{{"i1", uniformSeries(c.R, T, 0, 5)}, {"i2", uniformSeries(c.R, T, 0, 5)}}}
		}
		k := c.R.Intn(len(valid.Inputs))
		if c.R.Bool(0.3) {
			valid.Inputs[k].Values = []float64{} // one series present but empty, the others not
			c.Tag("hostile:one-empty-series")
		} else if c.R.Bool(0.5) {
			valid.Inputs[k].Values = append(valid.Inputs[k].Values, uniformSeries(c.R, c.R.IntRange(1, 5), 0, 5)...)
		} else if len(valid.Inputs[k].Values) > 1 {
			valid.Inputs[k].Values = valid.Inputs[k].Values[:len(valid.Inputs[k].Values)-1]
		} else {
			valid.Inputs[k].Values = append(valid.Inputs[k].Values, 1, 2)
		}
		body, _ = json.Marshal(valid)
		mustMention = valid.Inputs[k].Name
		if k == 0 && len(valid.Inputs) > 1 {
			mustMention = "" // the first series defines the length: some other input is the odd one out
		}
	case "extra-keys":
		body = []byte(strings.Replace(string(vb), `{"Name"`, `{"Colour":"blue","Nested":{"a":[1,2,{"b":null}]},"Name"`, 1))
		needProblem = false
	case "duplicate-keys":
		body = []byte(strings.Replace(string(vb), `{"Name"`, `{"Name":"`+model+`","Name"`, 1))
		needProblem = false
	case "setup-panic":
		// a parameter value that makes the set-up phase (state initialisation on the calling goroutine) panic:
		// the runner must answer with a document describing the problem
		if c.R.Bool(0.5) {
			body = []byte(fmt.Sprintf(`{"Name":"Lag","Parameters":[{"Name":"timeLag","Value":%v}],"Inputs":[{"Name":"inflow","Values":[1,2,3]}]}`, []float64{-1, -3, 1e18}[c.R.Intn(3)]))
			model = "Lag"
		} else {
			body = []byte(fmt.Sprintf(`{"Name":"GR4J","Parameters":[{"Name":"X1","Value":100},{"Name":"X2","Value":0},{"Name":"X3","Value":50},{"Name":"X4","Value":%v}],"Inputs":[{"Name":"rainfall","Values":[1,2]},{"Name":"pet","Values":[1,1]}]}`, []float64{-2, -0.5, -40}[c.R.Intn(3)]))
			model = "GR4J"
		}
	case "deep-nesting":
		body = []byte(strings.Repeat("[", c.R.IntRange(10, 2000)) + strings.Repeat("]", c.R.IntRange(0, 2000)))
	}
	c.Begin(map[string]interface{}{"model": model, "class": class, "request_bytes": string(body)})
	c.Class("hostile/" + class)
	c.Count("hostile/"+class, 1)
	so, se, exit, err := runOwSingle(body)
	c.Count("child_processes", 1)
	if err != nil {
		c.Inconclusive("cannot run ow-single: " + err.Error())
		return
	}
	if exit != 0 {
		c.Violate("runner-crashed", model, fmt.Sprintf("request class %s: ow-single exited with status %d; stderr: %s", class, exit, headStr(string(se), 500)), "class", class)
		return
	}
	resp, perr := exactlyOneJSON(so)
	if perr != nil {
		c.Violate("not-one-json-document", model, fmt.Sprintf("request class %s: %v; stdout: %s", class, perr, headStr(string(so), 300)), "class", class)
		return
	}
	if needProblem {
		nonEmpty := false
		for _, l := range resp.Log {
			if strings.TrimSpace(l) != "" {
				nonEmpty = true
			}
		}
		if !nonEmpty {
			c.Violate("problem-not-described", model, fmt.Sprintf("request class %s: the response log is empty: %s", class, headStr(string(so), 300)), "class", class)
		} else if mustMention != "" && !strings.Contains(strings.ToLower(strings.Join(resp.Log, "\n")), strings.ToLower(mustMention)) {
			c.Violate("problem-not-described", model, fmt.Sprintf("request class %s: the log does not mention %q: %q", class, mustMention, resp.Log), "class", class)
		}
	}
}

// ---------------------------------------------------------------------------

func c17JsonSafe(c *core.Ctx) {
	nd := c.R.IntRange(1, 4)
	dims := make([]int, nd)
	for i := range dims {
		dims[i] = c.R.IntRange(1, 5)
		if c.R.Bool(0.07) {
			dims[i] = 0 // an axis without elements (the states of a model without state values): nests as []
		}
	}
	n := prod(dims)
	vals := make([]float64, n)
	special := 0
	for i := range vals {
		switch c.R.Intn(12) {
		case 0:
			vals[i] = math.NaN()
			special++
		case 1:
			vals[i] = math.Inf(1)
			special++
		case 2:
			vals[i] = math.Inf(-1)
			special++
		default:
			vals[i] = c.R.Range(-1e6, 1e6)
		}
	}
	// a view: slice with steps out of a larger root
	useView := c.R.Bool(0.5)
	c.Begin(map[string]interface{}{"model": "JsonSafeArray", "dims": dims, "view": useView, "values": fmtVals(vals)})
	c.Class(fmt.Sprintf("jsonsafe/nd%d/view%v", nd, useView))
	var arr data.NDFloat64
	if useView {
		rootDims := make([]int, nd)
		loc := make([]int, nd)
		step := make([]int, nd)
		for i := range dims {
			step[i] = c.R.IntRange(1, 2)
			loc[i] = c.R.IntRange(0, 2)
			rootDims[i] = loc[i] + max(dims[i]-1, 0)*step[i] + 1 + c.R.IntRange(0, 2)
		}
		root := data.NewArrayFloat64(rootDims)
		arr = root.Slice(loc, cpInts(dims), step)
		for f := 0; f < n; f++ {
			arr.Set(unflatten(dims, f), vals[f])
		}
	} else {
		arr = data.ArrayFromSliceFloat64(append([]float64{}, vals...), cpInts(dims))
	}
	for shift := 0; shift < nd; shift++ {
		if shift > 0 && dims[shift-1] == 0 {
			break // the leading indices are fixed at 0: there is no such element on an axis of extent 0
		}
		var res []interface{}
		if !c.Guard("jsonsafe-panic", "JsonSafeArray", func() { res = owjs.JsonSafeArray(arr, shift) }) {
			return
		}
		// expected: nesting of dims[shift:], leading indices fixed at 0
		var walk func(v interface{}, d int, idx []int) bool
		walk = func(v interface{}, d int, idx []int) bool {
			if d == nd {
				want := arr.Get(idx)
				switch x := v.(type) {
				case float64:
					return core.BitEq(x, want)
				case string:
					return (x == "NaN" && math.IsNaN(want)) || (x == "+Inf" && math.IsInf(want, 1)) || (x == "-Inf" && math.IsInf(want, -1))
				}
				return false
			}
			l, ok := v.([]interface{})
			if !ok || len(l) != dims[d] {
				return false
			}
			for i := range l {
				idx[d] = i
				if !walk(l[i], d+1, idx) {
					return false
				}
			}
			return true
		}
		// what is judged is the document: the conversion's result goes through encoding/json and is read back, so that an
		// axis without elements must arrive as [] (a nil slice would be written as null, which is not an array)
		var decoded interface{} = res
		if eb, err := json.Marshal(res); err == nil {
			var back interface{}
			if json.Unmarshal(eb, &back) == nil {
				decoded = back
			}
		}
		if !walk(decoded, shift, make([]int, nd)) {
			b, _ := json.Marshal(res)
			c.Violate("jsonsafe-nesting", "JsonSafeArray", fmt.Sprintf("JsonSafeArray(array of shape %v, view=%v, shiftDim=%d) = %s does not nest like dims %v with the array's values", dims, useView, shift, headStr(string(b), 400), dims[shift:]))
			return
		}
		// and it must be encodable
		if _, err := json.Marshal(res); err != nil {
			c.Violate("jsonsafe-not-encodable", "JsonSafeArray", err.Error())
		}
		c.Count("jsonsafe_conversions", 1)
	}
	c.Count("non_finite_values_encoded", float64(special))
	for _, v := range []float64{math.NaN(), math.Inf(1), math.Inf(-1), 0, -0.0, 1.5} {
		r := owjs.JsonSafeValue(v)
		ok := false
		switch x := r.(type) {
		case float64:
			ok = core.BitEq(x, v)
		case string:
			ok = (x == "NaN" && math.IsNaN(v)) || (x == "+Inf" && math.IsInf(v, 1)) || (x == "-Inf" && math.IsInf(v, -1))
		}
		if !ok {
			c.Violate("jsonsafe-value", "JsonSafeValue", fmt.Sprintf("JsonSafeValue(%v) = %#v", v, r))
		}
	}
}

func fmtVals(v []float64) []string {
	r := make([]string, len(v))
	for i, x := range v {
		r[i] = fmt.Sprint(x)
	}
	return r
}

// ---------------------------------------------------------------------------
// sequence: the answer to a request does not depend on the requests the process answered before it

func c17Sequence(c *core.Ctx) {
	names := ModelNames()
	pick := func() string {
		m := names[c.R.Intn(len(names))]
		for tableModel(m) {
			m = names[c.R.Intn(len(names))]
		}
		return m
	}
	model := pick()
	other := pick()
	n := c.R.IntRange(3, 6)
	type rq struct {
		kind, model string
		body        []byte
	}
	var reqs []rq
	build := func(m, kind string) rq {
		desc := NewModel(m).Description()
		T := c.R.IntRange(1, 12)
		ps := GenPSet(m, c.R, genOpts{widthClass: 1 + c.R.Intn(13)})
		in := GenInputs(m, c.R, T, ps)
		r := jReq{Name: m}
		for i, p := range desc.Parameters {
			if kind == "complete" || (kind != "no-parameters" && c.R.Bool(0.6)) {
				r.Parameters = append(r.Parameters, jNameValue{p.Name, ps[i][0]})
			}
		}
		for i, nm := range desc.Inputs {
			if kind == "complete" || (kind != "no-inputs" && (c.R.Bool(0.7) || len(r.Inputs) == 0)) {
				r.Inputs = append(r.Inputs, jInput{nm, in[i]})
			}
		}
		if kind == "no-name" {
			r.Name = ""
		}
		b, _ := json.Marshal(r) // omitempty: members without content are left out of the document
		if kind == "no-name" {
			b = []byte(strings.Replace(string(b), `"Name":"",`, "", 1))
		}
		if kind == "empty-object" {
			b = []byte("{}")
		}
		return rq{kind, m, b}
	}
	kinds := []string{"complete", "partial", "no-parameters", "no-inputs", "empty-object", "no-name", "other-model"}
	for i := 0; i < n; i++ {
		k := kinds[c.R.Intn(len(kinds))]
		if i == 0 && c.R.Bool(0.7) {
			k = "complete"
		}
		if k == "other-model" {
			reqs = append(reqs, build(other, "complete"))
			reqs[len(reqs)-1].kind = k
		} else {
			reqs = append(reqs, build(model, k))
		}
	}
	var bodies []string
	for _, r := range reqs {
		bodies = append(bodies, string(r.body))
	}
	c.Begin(map[string]interface{}{"model": model, "requests": bodies})
	c.Class(fmt.Sprintf("sequence/%s/%d", model, n))
	for i, r := range reqs {
		desc := NewModel(r.model).Description()
		so, _, exit, err := runOwSingle(r.body)
		c.Count("child_processes", 1)
		if err != nil {
			c.Inconclusive("cannot run ow-single: " + err.Error())
			return
		}
		if exit != 0 {
			// a request that ends the process (a default outside the kernel's domain, reported by the valid / hostile
			// workloads) cannot be part of an in-process sequence
			c.Count("requests_left_out_because_a_fresh_process_dies_on_them", 1)
			continue
		}
		var buf bytes.Buffer
		if !c.Guard("runner-panic-in-process", r.model, func() { sim.RunSingleModelJSON(bytes.NewReader(r.body), &buf, true) }) {
			return
		}
		mine, perr := exactlyOneJSON(buf.Bytes())
		if perr != nil {
			c.Violate("not-one-json-document", r.model, fmt.Sprintf("request %d of the sequence (%s), in-process runner: %v", i, r.kind, perr))
			return
		}
		fresh, perr := exactlyOneJSON(so)
		if perr != nil {
			c.Violate("not-one-json-document", r.model, fmt.Sprintf("request %d (%s): %v", i, r.kind, perr))
			return
		}
		words := append([]string{}, desc.Inputs...)
		for _, p := range desc.Parameters {
			words = append(words, p.Name)
		}
		if d := answersDiffer(mine, fresh, words); d != "" {
			c.Violate("answer-depends-on-earlier-requests", r.model, fmt.Sprintf("request %d of %d (%s) answered after %d other request(s) in the same process differs from the answer of a fresh process to the same bytes: %s; request: %s", i, len(reqs), r.kind, i, d, headStr(string(r.body), 300)), "kind", r.kind)
			return
		}
		c.Count("sequence/"+r.kind, 1)
		if i > 0 {
			c.Count("answers_compared_after_history", 1)
		}
	}
}

// answersDiffer compares what the statement fixes about two answers to the same request: outputs and states bit for bit,
// whether a problem / warning is described at all, and which of the model's parameter and input names the log mentions.
func answersDiffer(a, b *jResp, words []string) string {
	cmp := func(what string, x, y interface{}) string {
		mx, okx := x.(map[string]interface{})
		my, oky := y.(map[string]interface{})
		if okx != oky || len(mx) != len(my) {
			return fmt.Sprintf("%s: %d vs %d entries", what, len(mx), len(my))
		}
		for k, vx := range mx {
			vy, ok := my[k]
			if !ok {
				return fmt.Sprintf("%s: %s only in one answer", what, k)
			}
			sx, isx := vx.([]interface{})
			sy, isy := vy.([]interface{})
			if !isx && !isy {
				sx, sy = []interface{}{vx}, []interface{}{vy}
			}
			if len(sx) != len(sy) {
				return fmt.Sprintf("%s %s: %d vs %d values", what, k, len(sx), len(sy))
			}
			for t := range sx {
				p, okp := jnum(sx[t])
				q, okq := jnum(sy[t])
				if okp != okq || !(core.BitEq(p, q) || (math.IsNaN(p) && math.IsNaN(q))) {
					return fmt.Sprintf("%s %s[%d]: %v vs %v", what, k, t, sx[t], sy[t])
				}
			}
		}
		return ""
	}
	if d := cmp("outputs", a.RunResults.Outputs, b.RunResults.Outputs); d != "" {
		return d
	}
	if d := cmp("states", a.RunResults.States, b.RunResults.States); d != "" {
		return d
	}
	said := func(l []string) bool {
		for _, e := range l {
			if strings.TrimSpace(e) != "" {
				return true
			}
		}
		return false
	}
	if said(a.Log) != said(b.Log) {
		return fmt.Sprintf("log %q vs %q", a.Log, b.Log)
	}
	for _, w := range words {
		if logNames(a.Log, w) != logNames(b.Log, w) {
			return fmt.Sprintf("only one log names %s: %q vs %q", w, a.Log, b.Log)
		}
	}
	return ""
}
