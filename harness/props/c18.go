package props

// C18 - root finding and piecewise interpolation meet their numerical contracts.

import (
	"fmt"
	"math"

	"github.com/flowmatters/openwater-core/data"
	"github.com/flowmatters/openwater-core/util/fn"
	"verif/core"
)

func init() {
	core.Register(&core.Prop{
		ID:    "C18",
		Level: "exploration",
		Rule: "findroot: case = (test function family, parameters, bracket, initial guess, derivative mode, tolerance, iteration limit); the function is wrapped to log every evaluation point; " +
			"piecewise: case = (knot table, layout of the table arrays, query set: knots, interior, outside, NaN); distinct = distinct (family, guess kind, derivative mode, iteration bucket) resp. (table size, layout); non-trivial = at least one iteration needed",
		Assumptions: []string{
			"FindRoot preconditions: continuous f with f(min) <= 0 <= f(max); monotone families are non-decreasing",
			"'budget suffices for halving': for families with Lipschitz bound L, L*max((max-min)/2^N, 2*convergenceLimit) < tol => |delta| < tol",
			"Piecewise knot values compared within 4 ulp of max(|y0|,|y1|); interpolant within 1e-12 relative",
		},
		Workloads: []core.Workload{
			{Name: "findroot", Variant: "plain", N: core.Tiered(3000, 1000000), Run: c18Root},
			{Name: "piecewise", Variant: "plain", N: core.Tiered(600, 150000), Run: c18Piecewise},
		},
		RequireTags: func(string) []string { return []string{"root:converged", "pw:outside", "pw:nan", "pw:knot", "pw:narrow-segment", "pw:scaled-units", "root:both-ends-within-tolerance"} },
		ExpectTags:  func(string) []string { return []string{"root:budget-exhausted"} },
	})
}

type testFn struct {
	name     string
	f        func(float64) float64
	df       func(float64) float64
	monotone bool
	lip      float64 // Lipschitz bound on [min,max], 0 if unknown
	min, max float64
}

func makeTestFn(r *core.Rand) testFn {
	fam := r.Intn(8)
	switch fam {
	case 7: // strongly curved monotone: x^k - c or 1-(1-x)^k - c on [0,1] (one bracket end survives many iterations)
		k := r.Range(8, 60)
		cc := r.Range(0.01, 0.99)
		if r.Bool(0.5) {
			f := func(x float64) float64 { return math.Pow(math.Max(x, 0), k) - cc }
			df := func(x float64) float64 { return k * math.Pow(math.Max(x, 0), k-1) }
			return testFn{"power-k", f, df, true, k, 0, 1}
		}
		f := func(x float64) float64 { return 1 - math.Pow(math.Max(1-x, 0), k) - cc }
		df := func(x float64) float64 { return k * math.Pow(math.Max(1-x, 0), k-1) }
		return testFn{"one-minus-power-k", f, df, true, k, 0, 1}
	case 0: // linear
		a := r.LogRange(1e-3, 1e3)
		root := r.Range(-50, 50)
		lo, hi := root-r.Range(0, 100), root+r.Range(0, 100)
		return testFn{"linear", func(x float64) float64 { return a * (x - root) }, func(float64) float64 { return a }, true, a, lo, hi}
	case 1: // routing-like residual: q*dt + k*q^m - S on q>=0
		k := r.LogRange(600, 4e5)
		m := r.Range(0.5, 1)
		dt := []float64{3600, 86400}[r.Intn(2)]
		qroot := r.LogRange(1e-3, 500)
		S := qroot*dt + k*math.Pow(qroot, m)
		hi := qroot * r.Range(1, 10)
		lo := 0.0
		if r.Bool(0.5) {
			lo = qroot * r.Range(0, 1)
		}
		f := func(q float64) float64 { return q*dt + k*math.Pow(math.Max(q, 0), m) - S }
		df := func(q float64) float64 {
			if q <= 0 {
				return dt
			}
			return dt + k*m*math.Pow(q, m-1)
		}
		return testFn{"routing-power", f, df, true, 0, lo, hi}
	case 2: // monotone with flat segments and a kink: max(0, x-a) - c, shifted to bracket
		a := r.Range(-10, 10)
		cc := r.Range(0, 5)
		s := r.LogRange(0.1, 100)
		f := func(x float64) float64 { return s*math.Max(0, x-a) - cc }
		df := func(x float64) float64 {
			if x > a {
				return s
			}
			return 0
		}
		lo := a - r.Range(0, 20)
		hi := a + cc/s + r.Range(0, 20)
		return testFn{"kinked", f, df, true, s, lo, hi}
	case 3: // monotone cubic
		root := r.Range(-5, 5)
		a := r.LogRange(1e-2, 10)
		b := r.Range(0, 3)
		f := func(x float64) float64 { d := x - root; return a * (d*d*d + b*d) }
		df := func(x float64) float64 { d := x - root; return a * (3*d*d + b) }
		w1, w2 := r.Range(0, 8), r.Range(0, 8)
		lo, hi := root-w1, root+w2
		W := math.Max(w1, w2)
		return testFn{"cubic", f, df, true, a * (3*W*W + b), lo, hi}
	case 4: // steep sigmoid
		root := r.Range(-3, 3)
		kk := r.LogRange(1, 1e3)
		f := func(x float64) float64 { return math.Tanh(kk * (x - root)) }
		df := func(x float64) float64 { t := math.Tanh(kk * (x - root)); return kk * (1 - t*t) }
		return testFn{"sigmoid", f, df, true, kk, root - r.Range(0, 10), root + r.Range(0, 10)}
	case 5: // non-monotone: sin-perturbed line with a sign change over the bracket
		root := r.Range(-5, 5)
		a := r.LogRange(0.1, 10)
		amp := r.Range(0, 3) * a
		w := r.Range(0.5, 5)
		f := func(x float64) float64 { return a*(x-root) + amp*math.Sin(w*(x-root)) }
		df := func(x float64) float64 { return a + amp*w*math.Cos(w*(x-root)) }
		lo, hi := root-r.Range(3, 20), root+r.Range(3, 20)
		// make sure of the sign change at the ends
		for f(lo) > 0 {
			lo -= 5
		}
		for f(hi) < 0 {
			hi += 5
		}
		return testFn{"sin-perturbed", f, df, false, 0, lo, hi}
	default: // non-monotone cubic with three roots
		r1 := r.Range(-5, -1)
		r2 := r.Range(-0.5, 0.5)
		r3 := r.Range(1, 5)
		f := func(x float64) float64 { return (x - r1) * (x - r2) * (x - r3) }
		df := func(x float64) float64 { return (x-r2)*(x-r3) + (x-r1)*(x-r3) + (x-r1)*(x-r2) }
		return testFn{"cubic-3roots", f, df, false, 0, r1 - r.Range(0.1, 5), r3 + r.Range(0.1, 5)}
	}
}

func c18Root(c *core.Ctx) {
	tf := makeTestFn(c.R)
	guessKind := c.R.Intn(4)
	var guess float64
	switch guessKind {
	case 0:
		guess = tf.min
	case 1:
		guess = tf.max
	case 2:
		guess = tf.max - (tf.max-tf.min)*0.5 // exact midpoint as FindRoot computes it
	default:
		guess = tf.min + (tf.max-tf.min)*c.R.Float64()
	}
	derivMode := c.R.Intn(3) // 0 nil, 1 correct, 2 wrong
	tol := c.R.LogRange(1e-12, 1e-1)
	conv := []float64{1e-8, 1e-12, 1e-6}[c.R.Intn(3)]
	maxIt := c.R.IntRange(1, 60)
	if c.R.Bool(0.2) {
		maxIt = c.R.IntRange(1, 4)
	}
	bothEnds := c.R.Bool(0.1)
	c.Begin(map[string]interface{}{"model": "FindRoot", "family": tf.name, "min": tf.min, "max": tf.max, "guess": guess, "guess_kind": guessKind,
		"derivative": []string{"nil", "correct", "wrong"}[derivMode], "tolerance": tol, "tolerance_raised_above_both_ends": bothEnds, "convergenceLimit": conv, "maxIterations": maxIt, "seed_note": "function parameters are regenerated from the case PRNG"})
	c.Class(fmt.Sprintf("%s/g%d/d%d/it%d", tf.name, guessKind, derivMode, maxIt/10))
	fmin, fmax := tf.f(tf.min), tf.f(tf.max)
	if !(fmin <= 0 && fmax >= 0) {
		c.Trivial()
		return // precondition not met by this draw
	}
	if bothEnds && (fmin != 0 || fmax != 0) {
		// a coarse tolerance (or a narrow bracket): BOTH ends of the bracket already satisfy it
		tol = math.Max(math.Abs(fmin), math.Abs(fmax)) * c.R.Range(1.5, 10)
		c.Tag("root:both-ends-within-tolerance")
	}
	var evals []float64
	wrapped := func(x float64) float64 {
		evals = append(evals, x)
		return tf.f(x)
	}
	var dfn func(float64) float64
	switch derivMode {
	case 1:
		dfn = tf.df
	case 2:
		dfn = func(x float64) float64 { return -3*tf.df(x) + 1 }
	}
	var x, delta float64
	if !c.Guard("findroot-panic", "FindRoot", func() {
		x, delta = fn.FindRoot(wrapped, dfn, guess, tf.min, tf.max, tol, conv, maxIt)
	}) {
		return
	}
	c.Count("findroot_calls", 1)
	c.Count("function_evaluations_logged", float64(len(evals)))
	for _, e := range evals {
		if e < tf.min || e > tf.max || math.IsNaN(e) {
			c.Violate("eval-outside-interval", "FindRoot", fmt.Sprintf("%s on [%v,%v]: function evaluated at %v", tf.name, tf.min, tf.max, e))
			break
		}
	}
	if !(x >= tf.min && x <= tf.max) {
		c.Violate("result-outside-interval", "FindRoot", fmt.Sprintf("%s on [%v,%v]: returned x=%v", tf.name, tf.min, tf.max, x))
		return
	}
	if fx := tf.f(x); !core.BitEq(fx, delta) {
		c.Violate("delta-not-f-of-x", "FindRoot", fmt.Sprintf("%s: returned x=%v delta=%v but f(x)=%v (guess %v, maxIterations %d)", tf.name, x, delta, fx, guess, maxIt))
	}
	if math.Abs(delta) < tol {
		c.Tag("root:converged")
	} else {
		c.Tag("root:budget-exhausted")
	}
	if tf.monotone {
		better := math.Min(math.Abs(fmin), math.Abs(fmax))
		// rounding noise of the test function at the returned point (1-ulp sensitivity)
		noise := 4 * math.Max(math.Abs(tf.f(math.Nextafter(x, math.Inf(1)))-tf.f(x)), math.Abs(tf.f(math.Nextafter(x, math.Inf(-1)))-tf.f(x)))
		noise = math.Max(noise, 4*2.220446049250313e-16*math.Max(math.Abs(fmin), math.Abs(fmax)))
		if math.Abs(delta) > better*(1+1e-12)+noise && maxIt >= 1 {
			c.Violate("worse-than-bracket-end", "FindRoot", fmt.Sprintf("%s on [%v,%v]: |delta|=%v exceeds min(|f(min)|,|f(max)|)=%v (x=%v guess=%v maxIterations=%d)", tf.name, tf.min, tf.max, math.Abs(delta), better, x, guess, maxIt))
		}
		if tf.lip > 0 {
			width := (tf.max - tf.min) / math.Pow(2, float64(maxIt))
			if tf.lip*math.Max(width, 2*conv) < tol {
				c.Count("halving_budget_sufficient_cases", 1)
				if !(math.Abs(delta) < tol) {
					c.Violate("tolerance-not-reached", "FindRoot", fmt.Sprintf("%s on [%v,%v] (Lipschitz %v): %d iterations suffice for interval halving to reach tolerance %v, but |delta|=%v (x=%v guess=%v conv=%v)", tf.name, tf.min, tf.max, tf.lip, maxIt, tol, math.Abs(delta), x, guess, conv))
				}
			}
		}
	}
}

// ---------------------------------------------------------------------------

func c18Piecewise(c *core.Ctx) {
	n := c.R.IntRange(2, 8)
	xs := increasingTable(c.R, n, c.R.Range(-100, 100), c.R.LogRange(1e-3, 1e3), true)
	// the property quantifies over every strictly increasing table: also tables in very small or very large units,
	// and tables with one segment only a few representable numbers (or a 1e-15..1e-8 sliver) wide
	tableMode, narrow := c.R.Intn(4), -1
	switch tableMode {
	case 2:
		sc := c.R.LogRange(1e-12, 1e12)
		xs = increasingTable(c.R, n, c.R.Range(-10, 10)*sc, sc, true)
	case 3:
		j := c.R.IntRange(1, n-1)
		narrow = j - 1
		if c.R.Bool(0.5) {
			v := xs[j-1]
			for k := []int{1, 2, 3, 1000}[c.R.Intn(4)]; k > 0; k-- {
				v = math.Nextafter(v, math.Inf(1))
			}
			xs[j] = v
		} else if v := xs[j-1] + c.R.LogRange(1e-15, 1e-8)*math.Max(1, math.Abs(xs[j-1])); v > xs[j-1] && v < xs[j] {
			xs[j] = v
		}
	}
	ys := make([]float64, n)
	for i := range ys {
		switch c.R.Intn(6) {
		case 0:
			ys[i] = 0
		case 1:
			ys[i] = c.R.Range(-1e6, 1e6)
		default:
			ys[i] = c.R.Range(-10, 10)
		}
	}
	layout := c.R.Intn(3)
	c.Begin(map[string]interface{}{"model": "Piecewise", "xs": xs, "ys": ys, "layout": []string{"contiguous", "strided-column", "stepped"}[layout]})
	c.Class(fmt.Sprintf("pw/n%d/layout%d/table%d", n, layout, tableMode))
	if narrow >= 0 {
		c.Tag("pw:narrow-segment")
	}
	if tableMode == 2 {
		c.Tag("pw:scaled-units")
	}
	mk := func(v []float64) data.ND1Float64 {
		switch layout {
		case 1: // column of a 2-D array
			a := data.NewArray2DFloat64(len(v), 3)
			for i, x := range v {
				a.Set2(i, 0, -999)
				a.Set2(i, 1, x)
				a.Set2(i, 2, 999)
			}
			return a.Slice([]int{0, 1}, []int{len(v), 1}, nil).MustReshape([]int{len(v)}).(data.ND1Float64)
		case 2: // every second element of a longer 1-D array
			a := data.NewArray1DFloat64(2*len(v) + 1)
			for i, x := range v {
				a.Set1(2*i+1, x)
			}
			return a.Slice([]int{1}, []int{len(v)}, []int{2}).(data.ND1Float64)
		}
		a := data.NewArray1DFloat64(len(v))
		for i, x := range v {
			a.Set1(i, x)
		}
		return a
	}
	xa, ya := mk(xs), mk(ys)
	ulp := func(scale float64) float64 { return 4 * scale * 2.220446049250313e-16 }
	query := func(q float64) (float64, error, bool) {
		var y float64
		var err error
		ok := c.Guard("piecewise-panic", "Piecewise", func() { y, err = fn.Piecewise(q, xa, ya) })
		return y, err, ok
	}
	// knots
	for i := range xs {
		y, err, ok := query(xs[i])
		if !ok {
			return
		}
		c.Tag("pw:knot")
		c.Count("pw_knot_queries", 1)
		scale := math.Abs(ys[i])
		if i > 0 {
			scale = math.Max(scale, math.Abs(ys[i-1]))
		}
		if i+1 < n {
			scale = math.Max(scale, math.Abs(ys[i+1]))
		}
		if err != nil {
			c.Violate("knot-error", "Piecewise", fmt.Sprintf("query at knot xs[%d]=%v returned error %v", i, xs[i], err))
		} else if math.Abs(y-ys[i]) > ulp(scale) {
			c.Violate("knot-value", "Piecewise", fmt.Sprintf("query at knot xs[%d]=%v returned %v, table value %v", i, xs[i], y, ys[i]))
		}
	}
	// interior points
	for k := 0; k < 12; k++ {
		i := c.R.Intn(n - 1)
		if narrow >= 0 && k < 4 {
			i = narrow
		}
		f := c.R.Float64()
		q := xs[i] + f*(xs[i+1]-xs[i])
		if q <= xs[i] || q >= xs[i+1] {
			continue
		}
		y, err, ok := query(q)
		if !ok {
			return
		}
		c.Count("pw_interior_queries", 1)
		if err != nil {
			c.Violate("interior-error", "Piecewise", fmt.Sprintf("query %v between knots %v and %v returned error %v", q, xs[i], xs[i+1], err))
			continue
		}
		want := ys[i] + (q-xs[i])/(xs[i+1]-xs[i])*(ys[i+1]-ys[i])
		scale := math.Max(math.Abs(ys[i]), math.Abs(ys[i+1]))
		if math.Abs(y-want) > 1e-12*scale+1e-300 {
			c.Violate("interior-value", "Piecewise", fmt.Sprintf("query %v between (%v,%v) and (%v,%v) returned %v, linear interpolant %v", q, xs[i], ys[i], xs[i+1], ys[i+1], y, want))
		}
		lo, hi := math.Min(ys[i], ys[i+1]), math.Max(ys[i], ys[i+1])
		if y < lo-ulp(scale) || y > hi+ulp(scale) {
			c.Violate("interior-outside-neighbours", "Piecewise", fmt.Sprintf("query %v returned %v, outside the neighbouring table values [%v,%v]", q, y, lo, hi))
		}
	}
	// outside and NaN
	span := xs[n-1] - xs[0]
	for _, q := range []float64{xs[0] - span*c.R.LogRange(1e-9, 10), xs[n-1] + span*c.R.LogRange(1e-9, 10), math.Nextafter(xs[0], math.Inf(-1)), math.Nextafter(xs[n-1], math.Inf(1)), math.Inf(1), math.Inf(-1)} {
		if q >= xs[0] && q <= xs[n-1] {
			continue // rounding put the query back inside the table
		}
		y, err, ok := query(q)
		if !ok {
			return
		}
		c.Tag("pw:outside")
		c.Count("pw_outside_queries", 1)
		if err == nil {
			c.Violate("outside-no-error", "Piecewise", fmt.Sprintf("query %v outside the table [%v,%v] returned the number %v and no error", q, xs[0], xs[n-1], y))
		}
	}
	y, err, ok := query(math.NaN())
	if !ok {
		return
	}
	c.Tag("pw:nan")
	c.Count("pw_nan_queries", 1)
	if err == nil {
		c.Violate("nan-no-error", "Piecewise", fmt.Sprintf("query NaN returned %v and no error", y))
	}
}
