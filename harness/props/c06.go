package props

// C06 - hot-start continuity: split runs reproduce the uninterrupted run.

import (
	"fmt"
	"math"
	"sort"
	"sync/atomic"

	"verif/core"
)

func init() {
	core.Register(&core.Prop{
		ID:    "C06",
		Level: "exploration",
		Rule: "case = (stateful model, parameter set, input series, split schedule, init/hot start); full run vs chained segment runs; " +
			"distinct = distinct (model, cells, schedule kind, hot, T bucket); non-trivial = outputs not all zero",
		Assumptions: []string{
			"tolerance |a-b| <= 1e-9*max(|a|,|b|)+1e-12; StorageRouting: storage within 100*massBalanceLimit (0.1 m3), outflow within 100*massBalanceLimit/dt + 1e-6*|q|",
			"integer bookkeeping states (GR4J n1,n2) must be equal",
		},
		Workloads: []core.Workload{
			{Name: "split", Variant: "plain", N: core.Tiered(17*90, 17*3000), Run: func(c *core.Ctx) { c06Split(c, false) }},
			// the same comparison with the chained segments run on caller-owned C memory (cdata views on guarded
			// buffers), the way libopenwater's RunSingleModel hot-starts: Unroll() copies there instead of aliasing
			// simulation-length periods (2100-6000 steps; Storage: enough steps for more than a million sub-steps in the single
			// call) cut into a few long segments: whatever a Run call counts, caches or compacts per call behaves differently
			// in one long call than in several shorter ones
			{Name: "split-long", Variant: "plain", N: core.Tiered(17*2, 17*40), Run: func(c *core.Ctx) { c06SplitX(c, false, true) }, TimeoutS: 900},
			{Name: "split-cbacked", Variant: "plain", N: core.Tiered(17*36, 17*600), Run: func(c *core.Ctx) { c06Split(c, true) }},
		},
	})
}

func splitSchedule(r *core.Rand, T int) (string, []int) {
	if T < 2 {
		return "none", nil
	}
	switch r.Intn(4) {
	case 0:
		return "one", []int{r.IntRange(1, T-1)}
	case 1:
		k := r.IntRange(1, minInt(3, T-1))
		set := map[int]bool{}
		for len(set) < k {
			set[r.IntRange(1, T-1)] = true
		}
		var s []int
		for v := range set {
			s = append(s, v)
		}
		sort.Ints(s)
		return "multi", s
	case 2:
		var s []int
		for t := 1; t < T; t++ {
			s = append(s, t)
		}
		return "every-step", s
	default:
		// early or late split
		if r.Bool(0.5) {
			return "first-step", []int{1}
		}
		return "last-step", []int{T - 1}
	}
}

func minInt(a, b int) int {
	if a < b {
		return a
	}
	return b
}

func c06Split(c *core.Ctx, cmem bool) { c06SplitX(c, cmem, false) }

func c06SplitX(c *core.Ctx, cmem, long bool) {
	models := statefulModels()
	model := models[c.Idx%len(models)]
	N := []int{1, 2, 3}[c.R.Intn(3)]
	T := c.R.IntRange(2, 60)
	if c.R.Bool(0.3) {
		T = c.R.IntRange(20, 120)
	}
	if long {
		T = c.R.IntRange(2100, 6000)
		N = 1
	}
	wc := 0
	if needsWidthClass(model) {
		wc = widthClassFor(c.R, N)
	}
	run := GenRun(model, c.R, N, N, N, T, wc)
	if model == "Sacramento" && c.R.Bool(0.4) {
		// the regime in which Sacramento's stores cross each other (storms, then heat waves, on a thin lower tension zone)
		for k := range run.Sets {
			sacramentoAdimcStress(c.R, run.Sets[k], run.Inputs[k])
		}
	}
	kind, splits := splitSchedule(c.R, T)
	emptyWindow := false
	if !long && c.R.Bool(0.12) && EmptySeriesOK(model) {
		// an empty window in the chain (a hot-start caller whose period is empty): a split point that coincides with
		// another one, with the start or with the end. No timestep runs in it, the states pass through.
		cand := append(append([]int{0}, splits...), T)
		splits = append(splits, cand[c.R.Intn(len(cand))])
		sort.Ints(splits)
		kind += "+empty"
		emptyWindow = true
	}
	hot := c.R.Bool(0.5)
	if long {
		// a few long segments
		splits = nil
		for k := c.R.IntRange(1, 3); k > 0; k-- {
			splits = append(splits, c.R.IntRange(200, T-200))
		}
		sort.Ints(splits)
		kind = "long-segments"
		if model == "Storage" {
			run = storageTrackingRun(c.R, T)
			hot = false
		}
	}
	var warm *MRun
	if hot {
		warm = GenRun(model, c.R, N, N, N, c.R.IntRange(5, 20), wc)
		warm.Sets = run.Sets
	}
	var busy *MRun
	if !long && c.R.Bool(0.1) {
		names := ModelNames()
		other := names[c.R.Intn(len(names))]
		for other == model || tableModel(other) {
			other = names[c.R.Intn(len(names))]
		}
		busy = GenRun(other, c.R, 3, 3, 3, 150, 1+c.R.Intn(13))
	}
	cmode := ""
	if cmem {
		cmode = []string{"guard-after", "guard-before", "malloc"}[c.R.Intn(3)]
	}
	c.Begin(map[string]interface{}{"model": model, "run": run, "splits": splits, "warmup_for_hot_states": warm, "segments_on_c_memory": cmode})
	if c.R.Bool(0.05) {
		HostileHistory(c, model, run.Sets)
	}
	c.Class(fmt.Sprintf("%s/N%d/%s/hot%v/T%d/c%v", model, N, kind, hot, T/20, cmem))
	if emptyWindow {
		c.Tag("split:empty-window")
	}
	if hot {
		wo, err := Execute(warm)
		if err != nil {
			c.Violate("prepare", model, err.Error())
			return
		}
		run.States = wo.States
	} else {
		p, err := Prepare(run)
		if err != nil {
			c.Violate("prepare", model, err.Error())
			return
		}
		run.States = From2(p.States)
	}
	full, err := Execute(run)
	if err != nil {
		c.Violate("prepare", model, err.Error())
		return
	}
	if !anyNonZero(full) {
		c.Trivial()
	}
	// chained segments
	bounds := append([]int{0}, splits...)
	bounds = append(bounds, T)
	if busy != nil {
		// a busy process: while the segments are chained, another goroutine keeps running an unrelated model (ow-sim runs
		// the model types of a generation at the same time; a host application serves several requests)
		var stop int32
		done := make(chan struct{})
		go func() {
			defer close(done)
			for atomic.LoadInt32(&stop) == 0 {
				Execute(busy)
			}
		}()
		defer func() { atomic.StoreInt32(&stop, 1); <-done }()
		c.Tag("split:while-another-model-runs")
	}
	desc := NewModel(model).Description()
	// runChain(nudge): the chained run; nudge != 0 moves every handed-over state value (other than whole numbers, which
	// are bookkeeping) by one representable number up or down - used to measure how far a last-bit difference in the
	// carried states is amplified by the kernel itself
	runChain := func(nudge int, onC bool) ([][][]float64, [][]float64, bool) {
		states := clone2(run.States)
		chained := make([][][]float64, N)
		for i := range chained {
			chained[i] = make([][]float64, len(desc.Outputs))
		}
		for s := 0; s+1 < len(bounds); s++ {
			a, b := bounds[s], bounds[s+1]
			if nudge != 0 && s > 0 {
				for i := range states {
					for j, v := range states[i] {
						if v != math.Trunc(v) && !math.IsNaN(v) && !math.IsInf(v, 0) {
							states[i][j] = math.Nextafter(v, math.Inf(nudge))
						}
					}
				}
			}
			seg := &MRun{Model: model, N: N, T: b - a, Sets: run.Sets, Inputs: sliceT(run.Inputs, a, b), States: states}
			var so *MOut
			var err error
			if onC {
				var intact bool
				so, intact, err = ExecuteC(seg, cmode)
				if !intact {
					c.Violate("canary", model, "bytes outside a caller-owned C buffer were modified by Run")
				}
				c.Count("segments_run_on_c_memory", 1)
			} else {
				so, err = Execute(seg)
			}
			if err != nil {
				c.Violate("prepare", model, err.Error())
				return nil, nil, false
			}
			for i := range chained {
				for j := range chained[i] {
					chained[i][j] = append(chained[i][j], so.Out[i][j]...)
				}
			}
			states = so.States
		}
		return chained, states, true
	}
	chained, states, okChain := runChain(0, cmem)
	if !okChain {
		return
	}
	c.Count("segments_run", float64(len(bounds)-1))

	dt := 86400.0
	if pi := paramIndex(desc, "DeltaT"); pi >= 0 {
		dt = run.Sets[0][pi][0]
	}
	// compare outputs
	var diffT []int
	var badOut [][3]int
	var badSt [][2]int
	worst := 0.0
	detail := ""
	for i := range chained {
		for j := range chained[i] {
			for t := 0; t < T; t++ {
				a, b := full.Out[i][j][t], chained[i][j][t]
				ok := core.RelClose(a, b, 1e-9, 1e-12)
				if model == "StorageRouting" {
					switch desc.Outputs[j] {
					case "storage":
						ok = math.Abs(a-b) <= 0.1+1e-9*math.Abs(a)
					case "outflow":
						ok = math.Abs(a-b) <= 0.1/dt+1e-6*math.Abs(a)
					}
				}
				rel := math.Abs(a-b) / math.Max(1e-300, math.Max(math.Abs(a), math.Abs(b)))
				if a == b {
					rel = 0
				}
				if rel > worst && !math.IsNaN(rel) {
					worst = rel
				}
				if !ok {
					if detail == "" {
						detail = fmt.Sprintf("output %s[cell %d][t %d]: uninterrupted %v vs split %v (splits at %v)", desc.Outputs[j], i, t, a, b, splits)
					}
					diffT = append(diffT, t)
					badOut = append(badOut, [3]int{i, j, t})
				}
			}
		}
	}
	c.Max("worst_rel_discrepancy/"+model, worst)
	// compare final states
	stateBad := ""
	for i := range states {
		for j := range states[i] {
			a, b := full.States[i][j], states[i][j]
			ok := core.RelClose(a, b, 1e-9, 1e-12)
			if model == "StorageRouting" {
				switch desc.States[minInt(j, len(desc.States)-1)] {
				case "S":
					ok = math.Abs(a-b) <= 0.1+1e-9*math.Abs(a)
				case "prevOutflow":
					ok = math.Abs(a-b) <= 0.1/dt+1e-6*math.Abs(a)
				}
			}
			if !ok {
				badSt = append(badSt, [2]int{i, j})
			}
			if !ok && stateBad == "" {
				name := fmt.Sprint(j)
				if j < len(desc.States) {
					name = desc.States[j]
				}
				stateBad = fmt.Sprintf("final state %s[cell %d]: uninterrupted %v vs split %v (splits at %v)", name, i, a, b, splits)
			}
		}
	}
	if detail == "" && stateBad == "" {
		return
	}
	// "the same ... to floating-point round-off": states are handed over through a pack/unpack that may cost the last bit
	// (Sacramento stores its free-water contents divided by 1+side). Where the kernel itself amplifies a last-bit
	// difference - a threshold that flips, a nearly singular step - the chained run legitimately leaves the 1e-9 band.
	// Measure that: repeat the chain with every handed-over state one representable number higher, and lower; a
	// discrepancy within 1000 times the spread those last-bit changes cause at the same element is round-off, not a
	// lost or altered state (which moves results by far more than the kernel's sensitivity to the last bit).
	if up, upSt, ok1 := runChain(+1, cmem); ok1 {
		if dn, dnSt, ok2 := runChain(-1, cmem); ok2 {
			spread := func(x, y, z float64) float64 {
				return math.Max(math.Abs(x-y), math.Max(math.Abs(x-z), math.Abs(y-z)))
			}
			explained := true
			for _, e := range badOut {
				i, j, t := e[0], e[1], e[2]
				d := math.Abs(full.Out[i][j][t] - chained[i][j][t])
				if !(d <= 1000*spread(chained[i][j][t], up[i][j][t], dn[i][j][t])) {
					explained = false
					break
				}
			}
			for _, e := range badSt {
				i, j := e[0], e[1]
				if !explained || j >= len(upSt[i]) || j >= len(dnSt[i]) {
					explained = false
					break
				}
				d := math.Abs(full.States[i][j] - states[i][j])
				if !(d <= 1000*spread(states[i][j], upSt[i][j], dnSt[i][j])) {
					explained = false
				}
			}
			if explained {
				c.Count("discrepancies_within_1000x_the_effect_of_one_ulp_in_the_carried_states", 1)
				c.Max("roundoff_amplified_discrepancy/"+model, worst)
				return
			}
		}
	}
	// shape of the failure (used by known-finding signatures)
	maxLag, atSplitOnly := 0, true
	for _, t := range diffT {
		last := 0
		for _, s := range splits {
			if s <= t {
				last = s
			}
		}
		if last == 0 {
			maxLag = 1 << 20
			atSplitOnly = false
			continue
		}
		if t-last > maxLag {
			maxLag = t - last
		}
		if t != last {
			atSplitOnly = false
		}
	}
	shape := "other"
	switch {
	case stateBad == "" && len(diffT) > 0 && atSplitOnly:
		shape = "outputs-at-split-step-only"
	case stateBad == "" && len(diffT) > 0 && maxLag <= 3:
		shape = "outputs-within-4-steps-after-split"
	case stateBad != "" && len(diffT) == 0:
		shape = "final-states-only"
	}
	// model-specific precondition of the listed findings (so that another defect is not swallowed)
	cond := ""
	switch model {
	case "Sacramento":
		cond = "uh-nolag"
		for i := range run.Sets {
			for _, n := range []string{"uh2", "uh3", "uh4", "uh5"} {
				if run.Sets[i][paramIndex(desc, n)][0] != 0 {
					cond = "uh-lagged"
				}
			}
		}
	case "InstreamDissolvedNutrientDecay":
		cond = "decay-off"
		for i := range run.Sets {
			if run.Sets[i][paramIndex(desc, "doDecay")][0] >= 0.5 {
				cond = "decay-on"
			}
		}
	}
	within4 := fmt.Sprint(stateBad == "" && len(diffT) > 0 && maxLag <= 3)
	attrs := []string{"shape", shape, "cond", cond, "outputs_only_within_4_steps_after_split", within4}
	if detail != "" {
		c.Violate("split-output-differs", model, detail+fmt.Sprintf("; %d differing output values, failure shape=%s", len(diffT), shape), attrs...)
	}
	if stateBad != "" {
		c.Violate("split-state-differs", model, stateBad+"; failure shape="+shape, attrs...)
	}
}
