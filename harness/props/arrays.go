package props

// Shadow array model and lock-step history runner shared by C01, C02, C03 (and C08).
//
// A shadow view is (shape, offs): offs lists the storage offset of every element in
// row-major order.  slice() is defined literally from the property text - element i of
// the child is element loc+i*step of the parent - by list indexing, so no stride algebra
// is shared with the implementation under test.

import (
	"math"
	"fmt"
	"unsafe"

	"verif/core"
)

type Num interface {
	~float64 | ~float32 | ~int32 | ~uint32 | ~int64 | ~uint64 | ~int | ~uint
}

type Arr[T any] interface {
	Raw() interface{}
	Shape() []int
	NDims() int
	Len(ax int) int
	Get(loc []int) T
	Set(loc []int, v T)
	Slice(loc, dims, step []int) Arr[T]
	Apply(loc []int, dim, step int, vals []T)
	ApplySlice(loc, step []int, vals Arr[T])
	CopyFrom(o Arr[T])
	Contiguous() bool
	Unroll() []T
	Reshape(s []int) (Arr[T], error)
	ReshapeFast(s []int) (Arr[T], error)
	MustReshape(s []int) Arr[T]
	Maximum() T
	Minimum() T
	Get1(i int) T
	Set1(i int, v T)
	Apply1(i, step int, v []T)
	Get2(i, j int) T
	Set2(i, j int, v T)
	Get3(i, j, k int) T
	Set3(i, j, k int, v T)
	Len1() int
}

type Backend[T any] struct {
	Type       string
	FromSlice  func(buf []T, dims []int) Arr[T]
	New        func(dims []int) Arr[T]
	ARange     func(n int) Arr[T]
	FromC      func(p unsafe.Pointer, dims []int) Arr[T]
	Scale      func(d, s Arr[T], k T)
	AddTo      func(d, s Arr[T])
	ApplyFunc1 func(d, s Arr[T], f func(T) T)
}

// ---------------------------------------------------------------------------
// shadow

type sStore[T any] struct {
	data []T
	id   int
}

type sView[T any] struct {
	st    *sStore[T]
	shape []int
	offs  []int
}

func prod(s []int) int {
	p := 1
	for _, v := range s {
		p *= v
	}
	return p
}

func cpInts(a []int) []int {
	if a == nil {
		return nil
	}
	return append([]int{}, a...)
}

func newShadowRoot[T any](id int, dims []int) *sView[T] {
	n := prod(dims)
	v := &sView[T]{st: &sStore[T]{data: make([]T, n), id: id}, shape: cpInts(dims), offs: make([]int, n)}
	for i := range v.offs {
		v.offs[i] = i
	}
	return v
}

func (v *sView[T]) size() int { return len(v.offs) }

// flat: row-major position of loc within the view's shape
func (v *sView[T]) flat(loc []int) int {
	f := 0
	for d := range v.shape {
		f = f*v.shape[d] + loc[d]
	}
	return f
}

// unflat: inverse of flat
func unflatten(shape []int, f int) []int {
	loc := make([]int, len(shape))
	for d := len(shape) - 1; d >= 0; d-- {
		if shape[d] > 0 {
			loc[d] = f % shape[d]
			f /= shape[d]
		}
	}
	return loc
}

func (v *sView[T]) get(loc []int) T     { return v.st.data[v.offs[v.flat(loc)]] }
func (v *sView[T]) set(loc []int, x T)  { v.st.data[v.offs[v.flat(loc)]] = x }
func (v *sView[T]) values() []T {
	r := make([]T, len(v.offs))
	for i, o := range v.offs {
		r[i] = v.st.data[o]
	}
	return r
}

func (v *sView[T]) slice(loc, dims, step []int) *sView[T] {
	n := prod(dims)
	c := &sView[T]{st: v.st, shape: cpInts(dims), offs: make([]int, n)}
	for i := 0; i < n; i++ {
		ci := unflatten(dims, i)
		pl := make([]int, len(dims))
		for d := range dims {
			s := 1
			if step != nil {
				s = step[d]
			}
			pl[d] = loc[d] + ci[d]*s
		}
		c.offs[i] = v.offs[v.flat(pl)]
	}
	return c
}

func (v *sView[T]) contiguous() bool {
	for k := 0; k+1 < len(v.offs); k++ {
		if v.offs[k+1] != v.offs[k]+1 {
			return false
		}
	}
	return true
}

func (v *sView[T]) reshapeAlias(shape []int) *sView[T] {
	return &sView[T]{st: v.st, shape: cpInts(shape), offs: cpInts(v.offs)}
}

func (v *sView[T]) offsetSet() map[int]bool {
	m := make(map[int]bool, len(v.offs))
	for _, o := range v.offs {
		m[o] = true
	}
	return m
}

func disjoint[T any](a, b *sView[T]) bool {
	if a.st != b.st {
		return true
	}
	m := a.offsetSet()
	for _, o := range b.offs {
		if m[o] {
			return false
		}
	}
	return true
}

// ---------------------------------------------------------------------------
// programs

type AOp struct {
	K        string    `json:"op"`
	V        int       `json:"view"`
	Loc      []int     `json:"loc,omitempty"`
	Dims     []int     `json:"dims,omitempty"`
	Step     []int     `json:"step,omitempty"`
	Dim      int       `json:"dim,omitempty"`
	St       int       `json:"stride,omitempty"`
	Vals     []float64 `json:"vals,omitempty"`
	Src      int       `json:"src,omitempty"`      // view index, -1 = fresh array from Vals
	NewShape []int     `json:"new_shape,omitempty"`
	Bulk     string    `json:"bulk,omitempty"`
	// SrcRoot/SrcLoc/SrcStep: a fresh source (Src < 0) that is not a whole array but the view
	// Slice(SrcLoc, Dims, SrcStep) of a fresh parent array of shape SrcRoot (Vals fills the whole parent)
	SrcRoot []int `json:"src_parent_dims,omitempty"`
	SrcLoc  []int `json:"src_loc,omitempty"`
	SrcStep []int `json:"src_step,omitempty"`
}

type AProg struct {
	Model   string `json:"model"`
	Type    string `json:"type"`
	Backing string `json:"backing"`
	Root    []int  `json:"root_dims"`
	Ops     []AOp  `json:"ops"`
	// Magnitude: "" = element values are the small unique counters 1,2,3,...; "A"/"B" = integer element types get the
	// counters shifted to the far ends of their range (beyond 2^53 for 64-bit types, beyond 2^24 / near 2^31 for 32-bit
	// ones), where a detour through float64/float32 or a narrower integer loses bits. Floats are not shifted.
	Magnitude string `json:"magnitude,omitempty"`
}

type progOpts struct {
	nOps      int
	allowBulk bool // C02 ops: reshape, unroll, maxmin, bulk helpers
	maxViews  int
}

// genProgram builds a program by simulating the shadow only.
func genProgram(r *core.Rand, typ, backing string, o progOpts) *AProg {
	nd := 1 + r.Intn(4)
	if r.Bool(0.2) {
		nd = 1 + r.Intn(3)
	}
	root := make([]int, nd)
	for i := range root {
		root[i] = r.IntRange(1, 6)
	}
	for prod(root) > 240 {
		root[r.Intn(nd)] = r.IntRange(1, 3)
	}
	p := &AProg{Model: "array/" + typ, Type: typ, Backing: backing, Root: root}
	if typ != "float64" && typ != "float32" && r.Bool(0.3) {
		p.Magnitude = []string{"A", "B"}[r.Intn(2)]
	}
	if (typ == "float64" || typ == "float32") && r.Bool(0.25) {
		p.Magnitude = "S"
	}
	sim := newSim[float64](root)
	next := 1.0
	fresh := func(n int) []float64 {
		v := make([]float64, n)
		for i := range v {
			v[i] = next
			next++
		}
		return v
	}
	bulkLeft := 3
	abortLeft := 2
	for len(p.Ops) < o.nOps {
		vi := r.Intn(len(sim.views))
		v := sim.views[vi]
		ndv := len(v.shape)
		var op AOp
		choice := r.Intn(100)
		switch {
		case abortLeft > 0 && v.size() > 1 && r.Bool(0.05):
			// an element-by-element sweep that its caller abandons: ApplyFunc1 of the view onto itself with the identity,
			// whose callback panics at the St-th element (recovered by the caller). Whatever progress the sweep made, the
			// contents are unchanged - and every later operation must behave as if the sweep had never been started
			op = AOp{K: "abortedsweep", V: vi, St: r.IntRange(1, v.size()-1)}
			abortLeft--
		case choice < 28 && len(sim.views) < o.maxViews && v.size() > 0:
			// slice, biased to stepping
			loc, dims, step := make([]int, ndv), make([]int, ndv), make([]int, ndv)
			for d := 0; d < ndv; d++ {
				s := 1
				if r.Bool(0.4) {
					s = r.IntRange(2, 3)
				}
				maxCount := (v.shape[d]-1)/s + 1
				cnt := r.IntRange(1, maxCount)
				maxLoc := v.shape[d] - 1 - (cnt-1)*s
				loc[d], dims[d], step[d] = r.IntRange(0, maxLoc), cnt, s
			}
			op = AOp{K: "slice", V: vi, Loc: loc, Dims: dims, Step: step}
			if r.Bool(0.25) {
				allOne := true
				for _, s := range step {
					if s != 1 {
						allOne = false
					}
				}
				if allOne {
					op.Step = nil
				}
			}
		case choice < 45:
			loc := make([]int, ndv)
			for d := range loc {
				loc[d] = r.Intn(v.shape[d])
			}
			k := "set"
			if ndv <= 3 && r.Bool(0.5) {
				k = fmt.Sprintf("set%d", ndv)
			}
			op = AOp{K: k, V: vi, Loc: loc, Vals: fresh(1)}
		case choice < 60:
			dim := r.Intn(ndv)
			s := r.IntRange(1, 3)
			maxCount := (v.shape[dim]-1)/s + 1
			cnt := r.IntRange(1, maxCount)
			loc := make([]int, ndv)
			for d := range loc {
				loc[d] = r.Intn(v.shape[d])
			}
			loc[dim] = r.IntRange(0, v.shape[dim]-1-(cnt-1)*s)
			op = AOp{K: "apply", V: vi, Loc: loc, Dim: dim, St: s, Vals: fresh(cnt)}
			if ndv == 1 && r.Bool(0.5) {
				op.K = "apply1"
			}
		case choice < 78:
			// applyslice: dest region of v, source = fresh array or a disjoint existing view of that shape
			loc, dims, step := make([]int, ndv), make([]int, ndv), make([]int, ndv)
			for d := 0; d < ndv; d++ {
				s := 1
				if r.Bool(0.3) {
					s = r.IntRange(2, 3)
				}
				maxCount := (v.shape[d]-1)/s + 1
				cnt := r.IntRange(1, maxCount)
				loc[d], dims[d], step[d] = r.IntRange(0, v.shape[d]-1-(cnt-1)*s), cnt, s
			}
			dest := v.slice(loc, dims, step)
			src := -1
			for _, cand := range r.Perm(len(sim.views)) {
				cv := sim.views[cand]
				if sameShape(cv.shape, dims) && disjoint(cv, dest) {
					src = cand
					break
				}
			}
			op = AOp{K: "applyslice", V: vi, Loc: loc, Dims: dims, Step: step, Src: src}
			if src < 0 || r.Bool(0.4) {
				op.Src = -1
				op.Vals = fresh(prod(dims))
				parentedSource(r, &op, dims, p.Root, fresh)
			}
			if r.Bool(0.15) {
				// whole-view copy
				src2 := -1
				for _, cand := range r.Perm(len(sim.views)) {
					cv := sim.views[cand]
					if sameShape(cv.shape, v.shape) && disjoint(cv, v) {
						src2 = cand
						break
					}
				}
				op = AOp{K: "copyfrom", V: vi, Src: src2, Dims: cpInts(v.shape)}
				if src2 < 0 {
					op.Vals = fresh(v.size())
					parentedSource(r, &op, v.shape, p.Root, fresh)
				}
			}
		case o.allowBulk && choice < 84 && len(sim.views) < o.maxViews:
			// reshape to a random factorisation (or a wrong size now and then)
			n := v.size()
			ns := randomFactorisation(r, n)
			if r.Bool(0.15) {
				ns[r.Intn(len(ns))]++
			}
			op = AOp{K: "reshape", V: vi, NewShape: ns}
			if r.Bool(0.4) {
				op.K = "reshapefast"
			}
		case o.allowBulk && choice < 90:
			op = AOp{K: "unroll", V: vi, Vals: fresh(1)}
		case o.allowBulk && choice < 94:
			op = AOp{K: "maxmin", V: vi}
		case o.allowBulk && choice < 100 && bulkLeft > 0:
			src := -1
			for _, cand := range r.Perm(len(sim.views)) {
				cv := sim.views[cand]
				if sameShape(cv.shape, v.shape) && (disjoint(cv, v) || cand == vi) {
					src = cand
					break
				}
			}
			op = AOp{K: "bulk", V: vi, Src: src, Bulk: []string{"scale", "addto", "applyfunc1"}[r.Intn(3)], Dims: cpInts(v.shape)}
			if src < 0 {
				op.Vals = fresh(v.size())
			}
			bulkLeft--
		default:
			continue
		}
		if op.K == "" {
			continue
		}
		sim.apply(&op, nil)
		p.Ops = append(p.Ops, op)
	}
	return p
}

func sameShape(a, b []int) bool {
	if len(a) != len(b) {
		return false
	}
	for i := range a {
		if a[i] != b[i] {
			return false
		}
	}
	return true
}

func randomFactorisation(r *core.Rand, n int) []int {
	if n <= 1 {
		return []int{n}
	}
	k := r.IntRange(1, 3)
	res := []int{}
	rem := n
	for i := 0; i < k-1; i++ {
		var divs []int
		for d := 1; d <= rem; d++ {
			if rem%d == 0 {
				divs = append(divs, d)
			}
		}
		d := divs[r.Intn(len(divs))]
		res = append(res, d)
		rem /= d
	}
	res = append(res, rem)
	return res
}

// ---------------------------------------------------------------------------
// simulation of the shadow (used for generation and, again, as the oracle during execution)

type shadowSim[T Num] struct {
	views  []*sView[T]
	stores int
	// notes produced by the last apply (for the executor)
	lastNew     *sView[T] // view created by the op (slice / aliasing reshape)
	lastSrc     *sView[T] // source view used
	lastErr     bool      // the op must fail (reshape)
	lastAlias   bool
	lastTransit bool // result is a transient copy: compare values only
	base        T    // magnitude shift of the element values (magBase)
}

func newSim[T Num](root []int) *shadowSim[T] {
	s := &shadowSim[T]{}
	s.views = []*sView[T]{newShadowRoot[T](0, root)}
	s.stores = 1
	return s
}

func conv[T Num](vals []float64, base T) []T {
	r := make([]T, len(vals))
	for i, v := range vals {
		r[i] = mkVal(v, base)
	}
	return r
}

// specialFloats: magnitude mode "S" (float element types): some of the unique counters are replaced by the values whose
// arithmetic is not that of ordinary numbers - NaN, +Inf, -Inf, -0 (0*NaN is NaN, Inf-Inf is NaN, -0 == +0).
// It is a package variable set per program run (workers execute one case at a time).
var specialFloats bool

func mkVal[T Num](x float64, base T) T {
	if specialFloats {
		var z T
		switch any(z).(type) {
		case float64, float32:
			switch int(x) % 11 {
			case 0:
				return T(math.NaN())
			case 4:
				return T(math.Inf(1))
			case 8:
				return T(math.Inf(-1))
			case 5:
				return T(math.Copysign(0, -1))
			}
		}
	}
	return T(x) + base
}

// magBase is the shift applied to the unique counters for p's magnitude mode. cSafe: the program also runs on C-backed
// arrays, whose int/uint elements are 4-byte C ints.
func magBase[T Num](mag string, cSafe bool) T {
	if mag == "" {
		return 0
	}
	a := mag == "A"
	var z T
	var i64 int64
	var u64 uint64
	switch any(z).(type) {
	case int64:
		i64 = 1<<53 + 1
		if !a {
			i64 = -(1 << 62) - 1
		}
		return T(i64)
	case uint64:
		u64 = 1<<63 + 1
		if !a {
			u64 = 1<<53 + 1
		}
		return T(u64)
	case int:
		if cSafe {
			i64 = 1<<30 + 1
			if !a {
				i64 = -(1 << 24) - 1
			}
			return T(i64)
		}
		i64 = 1<<53 + 1
		if !a {
			i64 = -(1 << 62) - 1
		}
		return T(i64)
	case uint:
		if cSafe {
			u64 = 1<<31 + 1
			if !a {
				u64 = 1<<24 + 1
			}
			return T(u64)
		}
		u64 = 1<<63 + 1
		if !a {
			u64 = 1<<53 + 1
		}
		return T(u64)
	case int32:
		i64 = 1<<30 + 1
		if !a {
			i64 = -(1 << 24) - 1
		}
		return T(i64)
	case uint32:
		u64 = 1<<31 + 1
		if !a {
			u64 = 1<<24 + 1
		}
		return T(u64)
	}
	return 0
}

// apply performs op on the shadow.  If tmp != nil, a fresh source view (for Src<0) is
// returned through it so the executor can build the equal real array.
func (s *shadowSim[T]) apply(op *AOp, tmp **sView[T]) {
	s.lastNew, s.lastSrc, s.lastErr, s.lastAlias, s.lastTransit = nil, nil, false, false, false
	v := s.views[op.V]
	srcView := func(dims []int) *sView[T] {
		if op.Src >= 0 {
			return s.views[op.Src]
		}
		if op.SrcRoot != nil {
			f := newShadowRoot[T](-1, op.SrcRoot)
			copy(f.st.data, conv[T](op.Vals, s.base))
			return f.slice(op.SrcLoc, dims, op.SrcStep)
		}
		f := newShadowRoot[T](-1, dims)
		copy(f.st.data, conv[T](op.Vals, s.base))
		return f
	}
	switch op.K {
	case "slice":
		c := v.slice(op.Loc, op.Dims, op.Step)
		s.views = append(s.views, c)
		s.lastNew = c
	case "set", "set1", "set2", "set3":
		v.set(op.Loc, mkVal(op.Vals[0], s.base))
	case "apply", "apply1":
		loc := cpInts(op.Loc)
		for i, x := range op.Vals {
			loc[op.Dim] = op.Loc[op.Dim] + i*op.St
			v.set(loc, mkVal(x, s.base))
		}
	case "applyslice":
		src := srcView(op.Dims)
		s.lastSrc = src
		dest := v.slice(op.Loc, op.Dims, op.Step)
		vals := src.values()
		for i, o := range dest.offs {
			dest.st.data[o] = vals[i]
		}
	case "copyfrom":
		src := srcView(op.Dims)
		s.lastSrc = src
		vals := src.values()
		for i, o := range v.offs {
			v.st.data[o] = vals[i]
		}
	case "reshape", "reshapefast":
		if prod(op.NewShape) != v.size() || (op.K == "reshapefast" && !v.contiguous()) {
			s.lastErr = true
			return
		}
		if v.contiguous() {
			c := v.reshapeAlias(op.NewShape)
			s.views = append(s.views, c)
			s.lastNew = c
			s.lastAlias = true
		} else {
			s.lastTransit = true
		}
	case "unroll", "maxmin", "abortedsweep":
	case "bulk":
		src := srcView(op.Dims)
		s.lastSrc = src
		vals := src.values()
		for i, o := range v.offs {
			switch op.Bulk {
			case "scale":
				v.st.data[o] = vals[i] * 2
			case "addto":
				v.st.data[o] = v.st.data[o] + vals[i]
			case "applyfunc1":
				v.st.data[o] = vals[i] + 1
			}
		}
	}
	if tmp != nil {
		*tmp = s.lastSrc
	}
}

// parentedSource turns (half of the time) the fresh source of a two-array write into a view of a bigger fresh array
// in OTHER storage: a partial and/or stepped view, often starting at the parent's origin, and now and then of a parent
// with exactly as many elements as the destination's root array - what a caller copying between two arrays has.
func parentedSource(r *core.Rand, op *AOp, shape, destRoot []int, fresh func(int) []float64) {
	if !r.Bool(0.5) {
		return
	}
	nd := len(shape)
	root, loc, step := make([]int, nd), make([]int, nd), make([]int, nd)
	fits := len(destRoot) == nd
	for d := 0; d < nd && fits; d++ {
		if shape[d] > destRoot[d] {
			fits = false
		}
	}
	if fits && r.Bool(0.4) {
		// same shape as the destination's root array, view at the origin
		for d := 0; d < nd; d++ {
			root[d], loc[d], step[d] = destRoot[d], 0, 1
			if (shape[d]-1)*2+1 <= destRoot[d] && r.Bool(0.3) {
				step[d] = 2
			}
		}
	} else {
		for d := 0; d < nd; d++ {
			step[d] = 1
			if r.Bool(0.3) {
				step[d] = 2
			}
			extra := r.Intn(3)
			loc[d] = 0
			if r.Bool(0.4) {
				loc[d] = r.Intn(extra + 1)
			}
			root[d] = loc[d] + (shape[d]-1)*step[d] + 1 + (extra - loc[d])
		}
	}
	if prod(root) > 400 {
		return
	}
	op.SrcRoot, op.SrcLoc, op.SrcStep = root, loc, step
	op.Vals = fresh(prod(root))
}
