package props

// C20 - derived climate variables are physically ordered.

import (
	"sort"
	"fmt"
	"math"

	"verif/core"
)

var c20Elev = []float64{0, 500, 2000, 5000, 10000}

func init() {
	core.Register(&core.Prop{
		ID:    "C20",
		Level: "exploration",
		Rule: "grid: every (temperature block, elevation) case runs ClimateVariables over all grid humidities for each temperature and over the temperature axis; random: seeded points; " +
			"each evaluated (T, RH, elevation) point is one evaluation of the ordering/finite/identity monitors; distinct = distinct (elevation, temperature block); non-trivial = block evaluated",
		Assumptions: []string{
			"dry bulb in [-40,55] C, relative humidity in (0,100] %, elevation in [0,10000] m",
			"'between' is evaluated on [min(dew,dry)-1e-9, max(dew,dry)+1e-9] (at RH=100% the dew-point formula exceeds the dry bulb by <= 0.0062 C)",
			"monotonicity is checked between adjacent grid points only (0.05 C / 0.5 % thorough; 0.5 C / 5 % quick)",
		},
		Workloads: []core.Workload{
			{Name: "grid", Variant: "plain", N: func(t string) int { return len(c20Elev) * c20Blocks(t) }, Run: c20Grid},
			{Name: "random", Variant: "plain", N: core.Tiered(50, 2000), Run: c20Random},
			// decades of hourly / daily steps in ONE call, of every odd length: a run that is cut into blocks, batches or
			// vector chunks internally must still compute its last few steps
			{Name: "long", Variant: "plain", N: core.Tiered(40, 1500), Run: c20Long, TimeoutS: 600},
		},
	})
}

func c20Steps(tier string) (dT, dH float64) {
	if tier == "thorough" {
		return 0.05, 0.5
	}
	return 0.5, 5
}

const c20BlockLen = 20

func c20Blocks(tier string) int {
	dT, _ := c20Steps(tier)
	n := int(math.Round(95/dT)) + 1
	return (n + c20BlockLen - 1) / c20BlockLen
}

func runClimate(c *core.Ctx, elev float64, dry, hum []float64) (*MOut, error) {
	run := &MRun{Model: "ClimateVariables", N: 1, T: len(dry), Sets: []PSet{{{elev}}}, Inputs: [][][]float64{{dry, hum}}}
	return ExecuteFor(c, run)
}

func checkPoint(c *core.Ctx, elev, T, rh, vp, dew, wb, dT float64) {
	c.Count("points", 1)
	if !core.Finite(vp) || !core.Finite(dew) || !core.Finite(wb) || !core.Finite(dT) {
		c.Violate("nonfinite", "ClimateVariables", fmt.Sprintf("T=%v RH=%v elev=%v: vp=%v dew=%v wetBulb=%v deltaT=%v", T, rh, elev, vp, dew, wb, dT))
		return
	}
	if !(vp > 0) {
		c.Violate("vp-not-positive", "ClimateVariables", fmt.Sprintf("T=%v: vaporPressure=%v", T, vp))
	}
	lo, hi := math.Min(dew, T)-1e-9, math.Max(dew, T)+1e-9
	if wb < lo || wb > hi {
		c.Violate("wetbulb-outside", "ClimateVariables", fmt.Sprintf("T=%v RH=%v elev=%v: wetBulb=%v not between dew point %v and dry bulb %v", T, rh, elev, wb, dew, T))
	}
	if !core.BitEq(dT, T-wb) {
		c.Violate("deltat-identity", "ClimateVariables", fmt.Sprintf("T=%v RH=%v: deltaT=%v but dryBulb-wetBulb=%v", T, rh, dT, T-wb))
	}
}

// checkSeries: every point of a series, and saturation vapour pressure against temperature ACROSS the points of the
// series (it depends on the dry bulb only: equal temperatures give equal bits, a higher temperature a higher pressure)
func checkSeries(c *core.Ctx, elev float64, dry, hum []float64, o [][]float64) {
	for k := range dry {
		checkPoint(c, elev, dry[k], hum[k], o[0][k], o[1][k], o[2][k], o[3][k])
	}
	idx := make([]int, len(dry))
	for i := range idx {
		idx[i] = i
	}
	sort.Slice(idx, func(a, b int) bool { return dry[idx[a]] < dry[idx[b]] })
	for k := 1; k < len(idx); k++ {
		a, b := idx[k-1], idx[k]
		switch {
		case dry[a] == dry[b] && !core.BitEq(o[0][a], o[0][b]):
			c.Violate("vp-not-a-function-of-temperature", "ClimateVariables", fmt.Sprintf("steps %d and %d have the same dry bulb %v but vaporPressure %v and %v", a, b, dry[a], o[0][a], o[0][b]))
			return
		case dry[a] < dry[b] && !(o[0][a] < o[0][b]):
			c.Violate("vp-not-increasing", "ClimateVariables", fmt.Sprintf("vaporPressure(%v)=%v (step %d) is not above vaporPressure(%v)=%v (step %d)", dry[b], o[0][b], b, dry[a], o[0][a], a))
			return
		}
	}
}

func c20Grid(c *core.Ctx) {
	dT, dH := c20Steps(c.Tier)
	nb := c20Blocks(c.Tier)
	ei, bi := c.Idx/nb, c.Idx%nb
	elev := c20Elev[ei]
	nT := int(math.Round(95/dT)) + 1
	t0 := bi * c20BlockLen
	t1 := t0 + c20BlockLen
	if t1 > nT {
		t1 = nT
	}
	c.Begin(map[string]interface{}{"model": "ClimateVariables", "elevation": elev, "temperature_from": -40 + float64(t0)*dT, "temperature_to": -40 + float64(t1-1)*dT, "dT": dT, "dRH": dH})
	c.Class(fmt.Sprintf("elev%v/block%d", elev, bi))
	// very dry air first (the range is (0,100]), then the regular grid
	hums := []float64{0.01, 0.05, 0.1, 0.25, 0.5, 0.75, 0.9, 1.0, 1.1, 1.5, 2, 3}
	for h := dH; h <= 100+1e-9; h += dH {
		if h > 3 {
			hums = append(hums, math.Min(h, 100))
		}
	}
	// humidity axis per temperature
	for ti := t0; ti < t1; ti++ {
		T := -40 + float64(ti)*dT
		out, err := runClimate(c, elev, constSeries(len(hums), T), hums)
		if err != nil {
			c.Violate("prepare", "ClimateVariables", err.Error())
			return
		}
		o := out.Out[0]
		for k := range hums {
			checkPoint(c, elev, T, hums[k], o[0][k], o[1][k], o[2][k], o[3][k])
			if k > 0 && !(o[1][k] > o[1][k-1]) {
				c.Violate("dew-not-increasing", "ClimateVariables", fmt.Sprintf("T=%v: dew point %v at RH=%v is not above %v at RH=%v", T, o[1][k], hums[k], o[1][k-1], hums[k-1]))
			}
		}
	}
	// temperature axis (one extra point to link blocks)
	var temps []float64
	for ti := t0; ti <= t1 && ti < nT; ti++ {
		temps = append(temps, -40+float64(ti)*dT)
	}
	// always include the pair straddling 0 C where the Goff-Gratch branches meet
	if temps[0] <= 0 && temps[len(temps)-1] >= 0 {
		c.Tag("freezing-point-pair")
	}
	out, err := runClimate(c, elev, temps, constSeries(len(temps), 50))
	if err != nil {
		c.Violate("prepare", "ClimateVariables", err.Error())
		return
	}
	vp := out.Out[0][0]
	for k := 1; k < len(temps); k++ {
		d := vp[k] - vp[k-1]
		c.Min("min_vp_step_kPa", d)
		if !(d > 0) {
			c.Violate("vp-not-increasing", "ClimateVariables", fmt.Sprintf("vaporPressure(%v)=%v is not above vaporPressure(%v)=%v", temps[k], vp[k], temps[k-1], vp[k-1]))
		}
	}
}

func c20Random(c *core.Ctx) {
	n := 200
	elev := c.R.Range(0, 10000)
	dry := make([]float64, n)
	hum := make([]float64, n)
	for i := range dry {
		dry[i] = c.R.Range(-40, 55)
		hum[i] = math.Max(1e-3, c.R.Range(0, 100))
		if c.R.Bool(0.1) {
			dry[i] = c.R.Range(-0.01, 0.01) // around the branch point
		}
	}
	// value patterns over consecutive steps: the dry bulb (or the humidity) held bit-identical for a few steps while the
	// other variable jumps around, both held, and a value returning after one step
	for k := c.R.IntRange(2, 8); k > 0; k-- {
		t0 := c.R.Intn(n - 12)
		w := c.R.IntRange(3, 10)
		switch c.R.Intn(4) {
		case 0:
			for t := t0 + 1; t < t0+w; t++ {
				dry[t] = dry[t0]
			}
		case 1:
			for t := t0 + 1; t < t0+w; t++ {
				hum[t] = hum[t0]
			}
		case 2:
			for t := t0 + 1; t < t0+w; t++ {
				dry[t], hum[t] = dry[t0], hum[t0]
			}
		default:
			dry[t0+2], hum[t0+2] = dry[t0], hum[t0]
		}
	}
	c.Begin(map[string]interface{}{"model": "ClimateVariables", "elevation": elev, "dryBulb": dry, "humidity": hum})
	c.Class(fmt.Sprintf("random/%d", int(elev/1000)))
	out, err := runClimate(c, elev, dry, hum)
	if err != nil {
		c.Violate("prepare", "ClimateVariables", err.Error())
		return
	}
	checkSeries(c, elev, dry, hum, out.Out[0])
	// one forcing buffer, refilled in place for the next station: the same array object, other contents, same length
	if c.R.Bool(0.5) {
		run := &MRun{Model: "ClimateVariables", N: 1, T: n, Sets: []PSet{{{elev}}}, Inputs: [][][]float64{{dry, hum}}}
		if p, err := Prepare(run); err == nil {
			p.Exec()
			dry2, hum2 := make([]float64, n), make([]float64, n)
			for k := range dry {
				dry2[k], hum2[k] = dry[n-1-k], hum[(k+n/3)%n]
			}
			p.RefillInputs([][][]float64{{dry2, hum2}})
			if c.R.Bool(0.5) {
				p.Model = NewModel("ClimateVariables") // another object fed from the same buffer
				p.Model.ApplyParameters(p.Params)
			}
			o2 := p.Exec().Out[0]
			checkSeries(c, elev, dry2, hum2, o2)
			c.Tag("inputs:buffer-refilled-in-place")
		}
	}
	// pairwise ordering in temperature at tiny separations around random points
	for k := 0; k < 50; k++ {
		t := c.R.Range(-40, 54.9)
		e := c.R.LogRange(1e-6, 0.05)
		o2, _ := runClimate(nil, elev, []float64{t, t + e}, []float64{50, 50})
		if !(o2.Out[0][0][1] > o2.Out[0][0][0]) {
			c.Violate("vp-not-increasing", "ClimateVariables", fmt.Sprintf("vaporPressure(%v)=%v is not above vaporPressure(%v)=%v", t+e, o2.Out[0][0][1], t, o2.Out[0][0][0]))
		}
	}
}

func c20Long(c *core.Ctx) {
	n := c.R.IntRange(16000, 70000)
	if c.R.Bool(0.3) {
		n = []int{16384, 32768, 65536}[c.R.Intn(3)] + c.R.IntRange(-3, 40)
	}
	elev := c.R.Range(0, 10000)
	seed := c.R.Uint64()
	c.Begin(map[string]interface{}{"model": "ClimateVariables", "elevation": elev, "steps": n, "series_seed": seed, "note": "dryBulb/humidity are regenerated from series_seed"})
	c.Class(fmt.Sprintf("long/%d", n/10000))
	r := core.NewRand(seed)
	dry := make([]float64, n)
	hum := make([]float64, n)
	t, h := r.Range(-40, 55), r.Range(1, 100)
	for i := range dry {
		t = math.Max(-40, math.Min(55, t+r.Range(-3, 3)))
		h = math.Max(0.05, math.Min(100, h+r.Range(-10, 10)))
		dry[i], hum[i] = t, h
	}
	out, err := runClimate(c, elev, dry, hum)
	if err != nil {
		c.Violate("prepare", "ClimateVariables", err.Error())
		return
	}
	o := out.Out[0]
	for k := range dry {
		checkPoint(c, elev, dry[k], hum[k], o[0][k], o[1][k], o[2][k], o[3][k])
		if len(c.Res.Violations) > 0 {
			return
		}
	}
	c.Count("steps_in_long_runs", float64(n))
	c.Tag("long-run")
}
