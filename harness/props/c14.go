package props

// C14 - model results are a pure, causal function of parameters, states and inputs.

import (
	"math"
	"fmt"
	"runtime"

	"github.com/flowmatters/openwater-core/data"
	"verif/core"
)

func init() {
	core.Register(&core.Prop{
		ID:    "C14",
		Level: "exploration",
		Rule: "case = (model, run, history of other runs, truncation points); paired executions compared bit-for-bit; " +
			"distinct = distinct (model, cells, T, history length, scribble, #truncation points); non-trivial = some output non-zero",
		Assumptions: []string{
			"arrays are never modified between ApplyParameters and the Run that uses them (wrappers hold views by design)",
			"inputs finite (no NaN)",
		},
		Workloads: []core.Workload{
			{Name: "purity", Variant: "plain", N: core.Tiered(41*40, 41*400), Run: c14Purity},
			// table models: a run whose inputs sit exactly on interior knots of its rating table, re-run after a near-twin
			// whose last lookup lies one representable number above the first knot used
			{Name: "knot-history", Variant: "plain", N: core.Tiered(150, 5000), Run: c14KnotHistory},
			{Name: "causal", Variant: "plain", N: core.Tiered(41*40, 41*400), Run: c14Causal},
		},
	})
}

func anyNonZero(o *MOut) bool {
	for _, c := range o.Out {
		for _, s := range c {
			for _, v := range s {
				if v != 0 {
					return true
				}
			}
		}
	}
	for _, s := range o.States {
		for _, v := range s {
			if v != 0 {
				return true
			}
		}
	}
	return false
}

func cmpRuns(c *core.Ctx, kind, model, what string, a, b *MOut) {
	if d, bad := diffBits3(a.Out, b.Out); bad {
		c.Violate(kind+"-output", model, what+": outputs differ at "+d)
	}
	if d, bad := diffBits2(a.States, b.States); bad {
		c.Violate(kind+"-state", model, what+": final states differ at "+d)
	}
	c.Count("paired_executions", 1)
}

func c14Purity(c *core.Ctx) {
	names := ModelNames()
	model := names[c.Idx%len(names)]
	N := []int{1, 3}[c.R.Intn(2)]
	T := c.R.IntRange(1, 30)
	if c.R.Bool(0.15) && model != "Storage" {
		T = c.R.IntRange(200, 420) // more than a year of daily steps: whatever varies with the season or the calendar shows
	}
	wc := 0
	if needsWidthClass(model) {
		wc = widthClassFor(c.R, N)
	}
	P := 1 + c.R.Intn(N)
	run := GenRun(model, c.R, N, P, N, T, wc)
	hist := c.R.IntRange(1, 5)
	type other struct {
		Model string `json:"model"`
		Seed  uint64 `json:"seed"`
	}
	var others []other
	for i := 0; i < hist; i++ {
		others = append(others, other{names[c.R.Intn(len(names))], c.R.Uint64()})
	}
	procs := []int{1, 2, 3, 16}[c.R.Intn(4)]
	// half of the runs of stateful models start from the states a warm-up period left (wet stores, filled buffers): with
	// empty stores many branches and parameters have nothing to act on
	var warmP *MRun
	if len(NewModel(model).Description().States) > 0 && c.R.Bool(0.5) {
		warmP = GenRun(model, c.R, N, P, N, c.R.IntRange(10, 40), wc)
		warmP.Sets = run.Sets
	}
	c.Begin(map[string]interface{}{"model": model, "run": run, "history_of_other_runs": others, "gomaxprocs_second_run": procs, "warmup_for_hot_states": warmP})
	c.Class(fmt.Sprintf("%s/N%d/T%d/h%d/p%d/hot%v", model, N, T, hist, procs, warmP != nil))
	if warmP != nil {
		if wo, err := Execute(warmP); err == nil {
			run.States = wo.States
			c.Tag("purity:hot-states")
		}
	}

	// 1: fresh object
	p1, err := Prepare(run)
	if err != nil {
		c.Violate("prepare", model, err.Error())
		return
	}
	ref := p1.Exec()
	if !anyNonZero(ref) {
		c.Trivial()
	}
	// 2: same object again (fresh arrays, equal contents)
	p2, _ := PrepareOn(p1.Model, run)
	cmpRuns(c, "rerun-same-object", model, "second run on the same model object", ref, p2.Exec())
	// 2b: same object, the very same parameter and input array objects handed in again (a caller looping over
	// start states re-uses them); only states and outputs are fresh
	p2b, _ := PrepareOn(p1.Model, run)
	p2b.Inputs, p2b.Params = p1.Inputs, p1.Params
	p1.Model.ApplyParameters(p1.Params)
	cmpRuns(c, "rerun-same-input-arrays", model, "second run re-using the input and parameter arrays of the first", ref, p2b.Exec())
	c.Count("reruns_on_the_same_input_arrays", 1)
	// 2d: another process environment (time zone, locale, working directory): not an argument of the function
	if c.R.Bool(0.5) {
		pe, _ := Prepare(run)
		var oe *MOut
		zone := WithOtherEnvironment(int(c.R.Uint64()%6), func() { oe = pe.Exec() })
		cmpRuns(c, "rerun-in-other-environment", model, "fresh object with the local time zone "+zone+", a German locale and another working directory", ref, oe)
		c.Count("reruns_in_another_environment", 1)
	}
	// 2c: the same input array OBJECT refilled in place with other values (one forcing buffer used for the next
	// station / period), run on a fresh model object: the result is that of the new contents, whatever was in the buffer
	if len(p1.Desc.Inputs) > 0 {
		other := *run
		other.Inputs = nil
		rr := core.NewRand(c.R.Uint64())
		for b := range run.Inputs {
			other.Inputs = append(other.Inputs, GenInputs(model, rr, T, run.Sets[b%len(run.Sets)]))
		}
		if want, err := Execute(&other); err == nil {
			pr, _ := Prepare(run)
			pr.Inputs = p1.Inputs
			pr.RefillInputs(other.Inputs)
			cmpRuns(c, "run-on-refilled-input-arrays", model, "fresh object run on the first run's input array after the caller refilled it in place", want, pr.Exec())
			// put the first contents back for the comparisons that follow
			pr.RefillInputs(run.Inputs)
			c.Count("runs_on_refilled_input_arrays", 1)
		}
	}
	// 3: after other models (and other parameterisations of this model) have run
	for _, o := range others {
		r2 := core.NewRand(o.Seed)
		w := 0
		if needsWidthClass(o.Model) {
			w = 1 + r2.Intn(13)
		}
		or := GenRun(o.Model, r2, 2, 1, 2, r2.IntRange(1, 10), w)
		Execute(or)
	}
	// ... and a near-twin of this very run: the same parameters with every input one representable number higher, so
	// that whatever the library remembers from its last table lookups / comparisons sits right beside this run's values
	twin := *run
	twin.Inputs = clone3(run.Inputs)
	for b := range twin.Inputs {
		for j := range twin.Inputs[b] {
			for t, v := range twin.Inputs[b][j] {
				if model == "RatingCurvePartition" && v >= 100 {
					continue // the generated rating tables end at exactly 100: stay inside the table
				}
				twin.Inputs[b][j][t] = math.Nextafter(v, math.Inf(1))
			}
			// rotate by one step: the twin ENDS right beside the value this run STARTS with
			if ser := twin.Inputs[b][j]; len(ser) > 1 {
				first := ser[0]
				copy(ser, ser[1:])
				ser[len(ser)-1] = first
			}
		}
	}
	Execute(&twin)
	c.Count("near_twin_runs_before_rerun", 1)
	if c.R.Bool(0.2) {
		// ... and a long history of other parameterisations of this model (bounded caches evict and recycle by then)
		HostileHistory(c, model, nil)
	}
	// ... and one-parameter sweeps: the same run with ONE parameter given another value, then the run itself again - what a
	// sensitivity analysis does. Whatever the library derives from the parameters and keeps must notice every one of them.
	switch model {
	case "StorageRouting", "Muskingum", "Storage", "RatingCurvePartition", "DateGenerator":
		// (parameters whose legal values depend on each other: a single one cannot be redrawn on its own)
	default:
		np := len(p1.Desc.Parameters)
		for j := 0; j < np && j < 30; j++ {
			donor := GenPSet(model, c.R, genOpts{widthClass: wc, noDefaultTies: true})
			sweep := *run
			sweep.Sets = nil
			changed := false
			for _, set := range run.Sets {
				cp := make(PSet, len(set))
				copy(cp, set)
				if len(donor[j]) == len(set[j]) && len(set[j]) == 1 && !core.BitEq(donor[j][0], set[j][0]) && !needsWidthClass(model) {
					cp[j] = donor[j]
					changed = true
				}
				sweep.Sets = append(sweep.Sets, cp)
			}
			if !changed {
				continue
			}
			// the swept run itself comes right after its near-twin (the run under test): its result must be the one it has
			// after an unrelated parameterisation of the same model has run in between
			swA, _ := Execute(&sweep)
			Execute(GenRun(model, c.R, 1, 1, 1, 2, wc))
			swB, _ := Execute(&sweep)
			if swA != nil && swB != nil {
				cmpRuns(c, "run-right-after-near-twin", model, fmt.Sprintf("the run with only parameter %s changed, made right after the run under test vs made after an unrelated parameterisation", p1.Desc.Parameters[j].Name), swB, swA)
			}
			Execute(&sweep)
			ps, _ := Prepare(run)
			cmpRuns(c, "rerun-after-one-parameter-sweep", model, fmt.Sprintf("fresh object right after the same run with only parameter %s changed", p1.Desc.Parameters[j].Name), ref, ps.Exec())
			c.Count("one_parameter_sweeps", 1)
		}
	}
	old := runtime.GOMAXPROCS(procs)
	p3, _ := Prepare(run)
	o3 := p3.Exec()
	runtime.GOMAXPROCS(old)
	cmpRuns(c, "rerun-after-others", model, fmt.Sprintf("fresh object after %d other runs, GOMAXPROCS=%d", hist, procs), ref, o3)
	// 4: object reuse with different parameters in between
	altP := P
	if c.R.Bool(0.5) {
		altP = 1 + c.R.Intn(N+1) // also another NUMBER of parameter sets than the run under test
	}
	alt := GenRun(model, c.R, N, altP, N, T, wc)
	pa, _ := PrepareOn(p1.Model, alt)
	pa.Exec()
	p4, _ := PrepareOn(p1.Model, run)
	cmpRuns(c, "rerun-after-reparam", model, "same object after a run with other parameters", ref, p4.Exec())
	// 5: scribble over the storage of the arrays used by the previous run, then apply an equal new array
	scribble2(p4.Params, c.R)
	scribble2(p4.States, c.R)
	scribble3(p4.Inputs, c.R)
	scribble3(p4.Outputs, c.R)
	scribble2(pa.Params, c.R)
	p5, _ := PrepareOn(p1.Model, run)
	cmpRuns(c, "rerun-after-scribble", model, "same object after the caller overwrote the arrays of the previous run", ref, p5.Exec())
}

func scribble2(a data.ND2Float64, r *core.Rand) {
	sh := a.Shape()
	for i := 0; i < sh[0]; i++ {
		for j := 0; j < sh[1]; j++ {
			a.Set2(i, j, r.Range(-1e3, 1e3))
		}
	}
}

func scribble3(a data.ND3Float64, r *core.Rand) {
	sh := a.Shape()
	for i := 0; i < sh[0]; i++ {
		for j := 0; j < sh[1]; j++ {
			for k := 0; k < sh[2]; k++ {
				a.Set3(i, j, k, r.Range(-1e3, 1e3))
			}
		}
	}
}

func c14Causal(c *core.Ctx) {
	names := ModelNames()
	model := names[c.Idx%len(names)]
	N := []int{1, 2}[c.R.Intn(2)]
	T := c.R.IntRange(2, 24)
	wc := 0
	if needsWidthClass(model) {
		wc = widthClassFor(c.R, N)
	}
	run := GenRun(model, c.R, N, N, N, T, wc)
	// truncation points: every t for short series, random otherwise
	var cuts []int
	if T <= 12 {
		for t := 0; t < T-1; t++ {
			cuts = append(cuts, t)
		}
	} else {
		for k := 0; k < 6; k++ {
			cuts = append(cuts, c.R.Intn(T-1))
		}
	}
	altSeed := c.R.Uint64()
	// "all state values": half of the runs of stateful models start from the states that a warm-up period left (filled
	// delay buffers, wet stores) instead of the model's own initial states
	var warm *MRun
	if len(NewModel(model).Description().States) > 0 && c.R.Bool(0.5) {
		warm = GenRun(model, c.R, N, N, N, c.R.IntRange(5, 20), wc)
		warm.Sets = run.Sets
	}
	c.Begin(map[string]interface{}{"model": model, "run": run, "truncate_after": cuts, "alt_future_seed": altSeed, "warmup_for_hot_states": warm})
	c.Class(fmt.Sprintf("%s/N%d/T%d/cuts%d/hot%v", model, N, T, len(cuts), warm != nil))
	if warm != nil {
		wo, err := Execute(warm)
		if err != nil {
			c.Violate("prepare", model, err.Error())
			return
		}
		run.States = wo.States
		c.Tag("causal:hot-states")
	}
	full, err := Execute(run)
	if err != nil {
		c.Violate("prepare", model, err.Error())
		return
	}
	if !anyNonZero(full) {
		c.Trivial()
	}
	for _, t := range cuts {
		// (i) truncate at t+1
		tr := *run
		tr.T = t + 1
		tr.Inputs = sliceT(run.Inputs, 0, t+1)
		to, _ := Execute(&tr)
		for i := range to.Out {
			for j := range to.Out[i] {
				for k := 0; k <= t; k++ {
					if !core.BitEq(to.Out[i][j][k], full.Out[i][j][k]) {
						c.Violate("truncation-changes-past", model, fmt.Sprintf("output[cell %d][var %d][t %d] = %v in the full run but %v when the series is truncated after t=%d", i, j, k, full.Out[i][j][k], to.Out[i][j][k], t))
					}
				}
			}
		}
		// (ii) replace the future by other values
		fr := *run
		fr.Inputs = clone3(run.Inputs)
		r2 := core.NewRand(altSeed, uint64(t))
		for b := range fr.Inputs {
			alt := GenInputs(model, r2, T, run.Sets[b%len(run.Sets)])
			for j := range fr.Inputs[b] {
				for k := t + 1; k < T; k++ {
					fr.Inputs[b][j][k] = alt[j][k]
				}
			}
		}
		fo, _ := Execute(&fr)
		for i := range fo.Out {
			for j := range fo.Out[i] {
				for k := 0; k <= t; k++ {
					if !core.BitEq(fo.Out[i][j][k], full.Out[i][j][k]) {
						c.Violate("future-changes-past", model, fmt.Sprintf("output[cell %d][var %d][t %d] changed from %v to %v when inputs after t=%d were replaced", i, j, k, full.Out[i][j][k], fo.Out[i][j][k], t))
					}
				}
			}
		}
		c.Count("truncation_points", 1)
		c.Count("paired_executions", 2)
	}
}


func c14KnotHistory(c *core.Ctx) {
	model := "RatingCurvePartition"
	desc := NewModel(model).Description()
	T := c.R.IntRange(1, 6)
	var ps PSet
	for {
		ps = GenPSet(model, c.R, genOpts{})
		if len(ps[paramIndex(desc, "inputAmount")]) >= 3 {
			break
		}
	}
	tbl := ps[paramIndex(desc, "inputAmount")]
	in := make([]float64, T)
	for t := range in {
		in[t] = tbl[c.R.IntRange(1, len(tbl)-2)] // interior knots only
	}
	run := &MRun{Model: model, N: 1, T: T, Sets: []PSet{ps}, Inputs: [][][]float64{{in}}}
	twin := &MRun{Model: model, N: 1, T: T, Sets: []PSet{ps}, Inputs: [][][]float64{{make([]float64, T)}}}
	for t := range in {
		twin.Inputs[0][0][t] = math.Nextafter(in[(t+1)%T], math.Inf(1))
	}
	c.Begin(map[string]interface{}{"model": model, "run": run, "near_twin_run_in_between": twin})
	c.Class(fmt.Sprintf("knot-history/n%d/T%d", len(tbl), T))
	ref, err := Execute(run)
	if err != nil {
		c.Violate("prepare", model, err.Error())
		return
	}
	Execute(twin)
	again, _ := Execute(run)
	cmpRuns(c, "rerun-after-near-twin", model, "fresh object after a run whose last table lookup lies one representable number above this run's first knot", ref, again)
	// and once more after a run that ends far away
	far := &MRun{Model: model, N: 1, T: 1, Sets: []PSet{ps}, Inputs: [][][]float64{{{tbl[0]}}}}
	Execute(far)
	again2, _ := Execute(run)
	cmpRuns(c, "rerun-after-far-run", model, "fresh object after a run that ends at the table's first knot", ref, again2)
	c.Count("knot_history_reruns", 2)
}
