package props

// C01 - array slices are live strided views that compose, with exact write footprints.

import (
	"verif/core"
)

func init() {
	core.Register(&core.Prop{
		ID:    "C01",
		Level: "exploration",
		Rule: "case = one generated history (20-60 ops: nested stepped slices, Set/Set1-3/Apply/Apply1/ApplySlice/CopyFrom) on one element type and storage back-end, " +
			"checked in lock-step against the shadow model (all storage + all live views after every op); distinct = distinct (type, back-end, ndims, max chain depth, slice-of-stepped-slice present); non-trivial = at least one slice and one write",
		Assumptions: []string{
			"in-bounds loc/dims/step triples only (generated from the shadow)",
			"Set1/Apply1, Set2, Set3 are driven on 1-, 2-, 3-dimensional views respectively",
			"two-array writes use sources that are disjoint from the destination elements or live in other storage",
			"C-backed arrays wrap real C memory (mmap with guard pages / malloc with canaries)",
		},
		Workloads: []core.Workload{
			{Name: "histories", Variant: "plain", N: core.Tiered(8*2*150, 8*2*20000), Run: c01History},
		},
		RequireTags: func(string) []string { return []string{"stepped-chain"} },
	})
}

func c01History(c *core.Ctx) {
	typ := arrayTypes[c.Idx%8]
	backing := []string{"go", "c"}[(c.Idx/8)%2]
	p := genProgram(c.R, typ, backing, progOpts{nOps: c.R.IntRange(20, 60), allowBulk: false, maxViews: 12})
	c.Begin(p)
	execTyped(c, p, []string{backing}, execOpts{prop: ""})
	if c.Res.Count["histories_with_slice_of_stepped_slice"] > 0 {
		c.Tag("stepped-chain")
	}
}
