package props

// C05 - concurrent cell and model execution is race-free and schedule-independent.

import (
	"strings"
	"bytes"
	"fmt"
	"runtime"
	"sort"
	"strconv"
	"sync"
	"time"

	"github.com/flowmatters/openwater-core/data"
	"verif/core"
)

func init() {
	core.Register(&core.Prop{
		ID:    "C05",
		Level: "exploration",
		Rule: "race: each case = one multi-cell Run (all 41 models, N in {2,8,32}, fewer parameter sets / input blocks than cells) executed in the -race build without any monitor state; " +
			"sched: the same kind of Run with proxy arrays that log and delay every top-level request, repeated over GOMAXPROCS x delay seeds and compared with the sequential cell-by-cell result; " +
			"owsim-race: ow-sim built with -race on random model graphs with seeded delays at the hook points; distinct = distinct (model, N, P, B) resp. distinct cell-arrival orders; non-trivial = N >= 2",
		Assumptions: []string{
			"the race detector sees the accesses of the executed inputs only; data-dependent paths not driven are not covered",
			"proxy arrays add synchronisation, so the race workload uses raw arrays and the schedule workload is not used for race detection",
			"ow-sim runs on the HDF5 shim, whose unsynchronised canary word stands for the library's non-thread-safety",
		},
		Needs: []string{"owsim-race"},
		Workloads: []core.Workload{
			{Name: "race", Variant: "race", N: core.Tiered(41*3*2, 41*3*50), Run: c05Race, Env: []string{"GORACE=halt_on_error=1 exitcode=66"}},
			// what ow-sim does with a generation, in-process under the race detector: the Run calls of two to four DIFFERENT
			// model types at the same time, each on its own arrays, compared bit for bit with the same calls made one after
			// another (package-level state shared between model types shows here and nowhere else)
			{Name: "race-models", Variant: "race", N: core.Tiered(120, 4000), Run: c05RaceModels, Env: []string{"GORACE=halt_on_error=1 exitcode=66"}},
			{Name: "sched", Variant: "plain", N: core.Tiered(41*2, 41*60), Run: c05Sched},
			{Name: "owsim-race", Variant: "plain", N: core.Tiered(32, 300), Run: c05OwsimRace, TimeoutS: 300, MaxProcs: 12},
		},
		RequireTags: func(string) []string { return []string{"race:N32"} },
		ExpectTags:  func(string) []string { return []string{"sched:orders>=3", "owsim:two-schedules-compared"} },
	})
}

func c05Race(c *core.Ctx) {
	names := ModelNames()
	model := names[c.Idx%len(names)]
	N := []int{2, 8, 32}[(c.Idx/len(names))%3]
	P := 1 + c.R.Intn(N-1+1)
	if P >= N && N > 2 {
		P = N - 1
	}
	B := 1 + c.R.Intn(N)
	if B >= N && N > 2 {
		B = N / 2
	}
	T := c.R.IntRange(1, 12)
	wc := 0
	if needsWidthClass(model) {
		wc = widthClassFor(c.R, N)
	}
	procs := []int{2, 4, 16}[c.R.Intn(3)]
	run := GenRun(model, c.R, N, P, B, T, wc)
	c.Begin(map[string]interface{}{"model": model, "cells": N, "param_sets": P, "input_blocks": B, "timesteps": T, "gomaxprocs": procs, "run": run})
	c.Class(fmt.Sprintf("race/%s/N%d/P%d/B%d", model, N, P, B))
	c.Tag(fmt.Sprintf("race:N%d", N))
	old := runtime.GOMAXPROCS(procs)
	defer runtime.GOMAXPROCS(old)
	// no monitor state between spawn and join: plain Execute on raw arrays
	// a third of the cases hold all four arrays in caller-owned C memory (what libopenwater's callers pass): the cell
	// goroutines then share cdata views, whose methods are different code from the Go-backed ones
	onC := c.Idx%3 == 1
	if onC {
		c.Tag("race:arrays-in-c-memory")
	}
	for rep := 0; rep < 3; rep++ {
		var err error
		if onC {
			_, _, err = ExecuteC(run, "malloc")
		} else {
			_, err = Execute(run)
		}
		if err != nil {
			c.Violate("prepare", model, err.Error())
			return
		}
		c.Count("race_build_runs", 1)
		c.Count("goroutines_spawned", float64(N))
	}
}

func c05RaceModels(c *core.Ctx) {
	names := ModelNames()
	k := c.R.IntRange(2, 4)
	perm := c.R.Perm(len(names))
	var runs []*MRun
	var models []string
	for i := 0; i < k; i++ {
		m := names[perm[i]]
		N := []int{1, 2, 5}[c.R.Intn(3)]
		wc := 0
		if needsWidthClass(m) {
			wc = widthClassFor(c.R, N)
		}
		runs = append(runs, GenRun(m, c.R, N, N, N, c.R.IntRange(1, 40), wc))
		models = append(models, m)
	}
	procs := []int{2, 4, 16}[c.R.Intn(3)]
	c.Begin(map[string]interface{}{"model": strings.Join(models, "+"), "runs": runs, "gomaxprocs": procs})
	c.Class(fmt.Sprintf("race-models/%d/%s", k, models[0]))
	old := runtime.GOMAXPROCS(procs)
	defer runtime.GOMAXPROCS(old)
	// alone, one after another
	alone := make([]*MOut, k)
	for i, r := range runs {
		o, err := Execute(r)
		if err != nil {
			c.Violate("prepare", models[i], err.Error())
			return
		}
		alone[i] = o
	}
	for rep := 0; rep < 3; rep++ {
		together := make([]*MOut, k)
		preps := make([]*Prepared, k)
		for i, r := range runs {
			p, err := Prepare(r)
			if err != nil {
				c.Violate("prepare", models[i], err.Error())
				return
			}
			preps[i] = p
		}
		var wg sync.WaitGroup
		for i := range preps {
			wg.Add(1)
			go func(i int) {
				defer wg.Done()
				together[i] = preps[i].Exec()
			}(i)
		}
		wg.Wait()
		for i := range runs {
			if d, bad := diffBits3(alone[i].Out, together[i].Out); bad {
				c.Violate("concurrent-models-differ", models[i], fmt.Sprintf("Run of %s while %v run at the same time differs from the same call made alone: outputs %s", models[i], models, d))
				return
			}
			if d, bad := diffBits2(alone[i].States, together[i].States); bad {
				c.Violate("concurrent-models-differ", models[i], fmt.Sprintf("Run of %s while %v run at the same time differs from the same call made alone: final states %s", models[i], models, d))
				return
			}
		}
		c.Count("concurrent_generations_run", 1)
	}
}

// ---------------------------------------------------------------------------
// proxies

type accEvent struct {
	gid    int64
	array  string
	method string
	loc    []int
	dims   []int
}

type accLog struct {
	mu     sync.Mutex
	events []accEvent
	seed   uint64
	n      uint64
	delay  bool
}

func gid() int64 {
	var buf [64]byte
	n := runtime.Stack(buf[:], false)
	f := bytes.Fields(buf[:n])
	if len(f) >= 2 {
		id, _ := strconv.ParseInt(string(f[1]), 10, 64)
		return id
	}
	return -1
}

func (l *accLog) rec(array, method string, loc, dims []int) {
	g := gid()
	l.mu.Lock()
	l.n++
	k := l.n
	l.events = append(l.events, accEvent{g, array, method, cpInts(loc), cpInts(dims)})
	l.mu.Unlock()
	if l.delay {
		r := core.Mix(l.seed ^ uint64(g)*0x9e3779b97f4a7c15 ^ k)
		switch r % 4 {
		case 0:
			runtime.Gosched()
		case 1:
			time.Sleep(time.Duration(r>>10%300) * time.Microsecond)
		case 2:
			time.Sleep(time.Duration(r>>10%30) * time.Microsecond)
		}
	}
}

type proxy struct {
	a    data.NDFloat64
	name string
	l    *accLog
}

func (p *proxy) Len(ax int) int        { return p.a.Len(ax) }
func (p *proxy) Shape() []int          { return p.a.Shape() }
func (p *proxy) NDims() int            { return p.a.NDims() }
func (p *proxy) NewIndex(v int) []int  { return p.a.NewIndex(v) }
func (p *proxy) Get(loc []int) float64 { p.l.rec(p.name, "Get", loc, nil); return p.a.Get(loc) }
func (p *proxy) Set(loc []int, v float64) {
	p.l.rec(p.name, "Set", loc, nil)
	p.a.Set(loc, v)
}
func (p *proxy) Slice(loc, dims, step []int) data.NDFloat64 {
	p.l.rec(p.name, "Slice", loc, dims)
	return p.a.Slice(loc, dims, step)
}
func (p *proxy) Apply(loc []int, dim int, step int, vals []float64) {
	p.l.rec(p.name, "Apply", loc, nil)
	p.a.Apply(loc, dim, step, vals)
}
func (p *proxy) ApplySlice(loc []int, step []int, vals data.NDFloat64) {
	p.l.rec(p.name, "ApplySlice", loc, vals.Shape())
	p.a.ApplySlice(loc, step, vals)
}
func (p *proxy) CopyFrom(o data.NDFloat64)                      { p.l.rec(p.name, "CopyFrom", nil, nil); p.a.CopyFrom(o) }
func (p *proxy) Contiguous() bool                               { return p.a.Contiguous() }
func (p *proxy) Unroll() []float64                              { p.l.rec(p.name, "Unroll", nil, nil); return p.a.Unroll() }
func (p *proxy) Reshape(s []int) (data.NDFloat64, error)        { return p.a.Reshape(s) }
func (p *proxy) MustReshape(s []int) data.NDFloat64             { return p.a.MustReshape(s) }
func (p *proxy) ReshapeFast(s []int) (data.NDFloat64, error)    { return p.a.ReshapeFast(s) }
func (p *proxy) Maximum() float64                               { return p.a.Maximum() }
func (p *proxy) Minimum() float64                               { return p.a.Minimum() }
func (p *proxy) Len2() int                                      { return p.a.Len(1) }
func (p *proxy) Len3() int                                      { return p.a.Len(2) }
func (p *proxy) Get2(i, j int) float64                          { return p.Get([]int{i, j}) }
func (p *proxy) Set2(i, j int, v float64)                       { p.Set([]int{i, j}, v) }
func (p *proxy) Get3(i, j, k int) float64                       { return p.Get([]int{i, j, k}) }
func (p *proxy) Set3(i, j, k int, v float64)                    { p.Set([]int{i, j, k}, v) }

func c05Sched(c *core.Ctx) {
	names := ModelNames()
	model := names[c.Idx%len(names)]
	N := []int{4, 6, 9}[c.R.Intn(3)]
	P := 1 + c.R.Intn(N)
	B := 1 + c.R.Intn(N)
	T := c.R.IntRange(1, 10)
	wc := 0
	if needsWidthClass(model) {
		wc = widthClassFor(c.R, N)
	}
	run := GenRun(model, c.R, N, P, B, T, wc)
	c.Begin(map[string]interface{}{"model": model, "cells": N, "param_sets": P, "input_blocks": B, "timesteps": T, "run": run})
	c.Class(fmt.Sprintf("sched/%s/N%d/P%d/B%d", model, N, P, B))
	// sequential cell-by-cell reference (fresh model per cell, one goroutine at a time)
	p0, err := Prepare(run)
	if err != nil {
		c.Violate("prepare", model, err.Error())
		return
	}
	states0 := From2(p0.States)
	run.States = states0
	ref := &MOut{}
	for i := 0; i < N; i++ {
		so, _ := Execute(SingleCell(run, i, states0))
		ref.Out = append(ref.Out, so.Out[0])
		ref.States = append(ref.States, so.States[0])
	}
	orders := map[string]bool{}
	for _, procs := range []int{1, 2, 3, 16} {
		for ds := 0; ds < 4; ds++ {
			old := runtime.GOMAXPROCS(procs)
			p, _ := Prepare(run)
			lg := &accLog{seed: core.Mix(uint64(c.Idx)*131 + uint64(procs)*17 + uint64(ds)), delay: true}
			in := &proxy{p.Inputs, "inputs", lg}
			st := &proxy{p.States, "states", lg}
			ou := &proxy{p.Outputs, "outputs", lg}
			mainG := gid()
			p.Model.Run(in, st, ou)
			runtime.GOMAXPROCS(old)
			out := p.Collect()
			c.Count("sched_runs", 1)
			c.Count("events_logged", float64(len(lg.events)))
			if d, bad := diffBits3(ref.Out, out.Out); bad {
				c.Violate("schedule-dependent-output", model, fmt.Sprintf("GOMAXPROCS=%d delay seed %d: outputs differ from the sequential cell-by-cell result at %s", procs, ds, d))
			}
			if d, bad := diffBits2(ref.States, out.States); bad {
				c.Violate("schedule-dependent-state", model, fmt.Sprintf("GOMAXPROCS=%d delay seed %d: final states differ from the sequential cell-by-cell result at %s", procs, ds, d))
			}
			// ---- the request log only provides the interleaving identity (order in which the cells' rows are
			// first requested) and the delay points.  How the wrapper distributes cells over goroutines and how
			// it addresses the arrays is an implementation choice the property does not fix (a worker pool is as
			// good as a goroutine per cell), so nothing about goroutine identity or request counts is asserted.
			var arrival []int
			seenCell := map[int]bool{}
			for _, e := range lg.events {
				if e.gid == mainG {
					continue
				}
				if e.array == "inputs" && e.method != "Slice" && e.method != "Get" && e.method != "Unroll" {
					c.Violate("inputs-write-request", model, fmt.Sprintf("Run issued %s on the inputs array", e.method))
				}
				if (e.array == "states" || e.array == "outputs") && len(e.loc) > 0 {
					if cell := e.loc[0]; !seenCell[cell] {
						seenCell[cell] = true
						arrival = append(arrival, cell)
					}
				}
			}
			orders[fmt.Sprint(arrival)] = true
			c.Tag(fmt.Sprintf("interleaving:%x", core.HashStr(model+fmt.Sprint(arrival))&0xffffff))
		}
	}
	c.Count("distinct_arrival_orders", float64(len(orders)))
	if len(orders) >= 3 {
		c.Tag("sched:orders>=3")
	} else if len(p0.Desc.Outputs) > 0 {
		c.Count("cases_with_fewer_than_3_orders", 1)
	}
	keys := make([]string, 0, len(orders))
	for k := range orders {
		keys = append(keys, k)
	}
	sort.Strings(keys)
}

func c05OwsimRace(c *core.Ctx) { owsimCase(c, true) }
