package props

// C13 - reservoir storage closes its water balance and respects its release rules.

import (
	"fmt"
	"math"

	"github.com/flowmatters/openwater-core/models/storage"
	"verif/core"
)

func init() {
	core.Register(&core.Prop{
		ID:    "C13",
		Level: "exploration",
		Rule: "case = (monotone level-volume-area table and release curves with 2..6 points, scenario, inflow/demand/rainfall/PET series of 5-60 steps, initial volume in [0,1.2*Vmax]); every timestep is one evaluation of the balance/sign monitors, every accepted sub-step (verif hook) one evaluation of the release-rule monitors; " +
			"distinct = distinct (scenario, table size, tags); non-trivial = some flux non-zero",
		Assumptions: []string{
			"tables: levels and volumes strictly increasing from volume 0; areas non-decreasing from 0; minRelease non-decreasing from 0; maxRelease >= minRelease with maxRelease(0)=0; release curves gentle near empty (the kernel panics when it cannot avoid a negative volume with a 6 s sub-step)",
			"balance tolerance 1e-6*max(V,1) m3 per timestep; release tolerance = the model's ALLOWED_ABS/REL_ERROR_RELEASE_RATE",
			"sub-step observations come from the verif-tagged hook verifSubstep in models/storage/storage.go",
		},
		Workloads: []core.Workload{
			{Name: "storage", Variant: "plain", N: core.Tiered(630, 15000), Run: c13Case, TimeoutS: 120},
			// simulation-length runs (1000-2500 daily steps in ONE Run call) whose release follows a sloped curve while the
			// volume cycles, i.e. hundreds of thousands to millions of sub-steps per call
			{Name: "storage-long", Variant: "plain", N: core.Tiered(6, 60), Run: c13Long, TimeoutS: 600},
		},
		RequireTags: func(string) []string { return []string{"empty", "long-run", "initial-volume-on-knot"} },
		// observed through the sub-step hook (and sub-stepping itself is an implementation choice)
		ExpectTags: func(string) []string { return []string{"spill", "substeps>1", "demand-met", "demand-above-max", "demand-below-min"} },
	})
}

func interpTable(x float64, xs, ys []float64) float64 {
	n := len(xs)
	if x <= xs[0] {
		return ys[0]
	}
	if x >= xs[n-1] {
		return ys[n-1]
	}
	for i := 0; i+1 < n; i++ {
		if x >= xs[i] && x <= xs[i+1] {
			return ys[i] + (x-xs[i])/(xs[i+1]-xs[i])*(ys[i+1]-ys[i])
		}
	}
	return ys[n-1]
}

// range of a piecewise-linear function over [a,b]
func tableRange(a, b float64, xs, ys []float64) (lo, hi float64) {
	if a > b {
		a, b = b, a
	}
	lo, hi = math.Inf(1), math.Inf(-1)
	upd := func(v float64) {
		lo = math.Min(lo, v)
		hi = math.Max(hi, v)
	}
	upd(interpTable(a, xs, ys))
	upd(interpTable(b, xs, ys))
	for i, x := range xs {
		if x > a && x < b {
			upd(ys[i])
		}
	}
	return
}

func c13Case(c *core.Ctx) { c13Run(c, false) }
func c13Long(c *core.Ctx) { c13Run(c, true) }

func c13Run(c *core.Ctx, long bool) {
	model := "Storage"
	desc := NewModel(model).Description()
	n := c.R.IntRange(2, 6)
	ps := storagePSet(desc, c.R, n)
	tbl := func(name string) []float64 { return ps[paramIndex(desc, name)] }
	if long {
		ps[paramIndex(desc, "DeltaT")][0] = 86400
	}
	dt := ps[paramIndex(desc, "DeltaT")][0]
	vols, areas, levels, minRel, maxRel := tbl("volumes"), tbl("areas"), tbl("levels"), tbl("minRelease"), tbl("maxRelease")
	// a table that starts at the dead storage instead of at the empty storage: every column is held at its first
	// value below the first knot by the library today; only the clauses that do not depend on how a table is continued
	// below its first knot are asserted while the volume is down there
	tableFrom := 0.0
	if !long && c.R.Bool(0.15) {
		tableFrom = vols[n-1] * c.R.Range(0.02, 0.3)
		for i := range vols {
			vols[i] += tableFrom
		}
		// (areas[0] stays 0 and nothing is released at the first knot: with a surface or a release held below the first
		// knot the kernel cannot stop the volume from going negative and panics - outside the domain, see DESIGN 9.5)
		minRel[0], maxRel[0] = 0, 0
	}
	vmax := vols[n-1]
	T := c.R.IntRange(5, 60)
	if long {
		T = c.R.IntRange(1000, 2500)
	}
	in := GenInputs(model, c.R, T, ps)
	iI := func(s string) int { return indexOf(desc.Inputs, s) }
	scenario := c.R.Intn(8)
	if scenario == 7 {
		scenario = 8
	}
	if long {
		scenario = 7
	}
	scn := []string{"mixed", "fill-to-spill", "draw-down", "heavy-rain", "evaporation", "demand-sweep", "gentle-spill", "long-run", "order-equals-inflow"}[scenario]
	qcap := 0.0
	if scenario == 7 {
		// a release curve with a real slope at every volume (0 when empty up to a capacity that turns the storage over
		// in 5-20 timesteps) and no minimum release; a demand above the capacity makes the release track the curve
		qcap = vmax / dt * c.R.Range(0.05, 0.2)
		pw := c.R.Range(0.5, 2)
		for i := 0; i < n; i++ {
			minRel[i] = 0
			maxRel[i] = qcap * math.Pow(vols[i]/vmax, pw)
		}
	}
	relTop := maxRel[n-1]
	switch scenario {
	case 1:
		for t := 0; t < T; t++ {
			in[iI("inflow")][t] = vmax / dt * c.R.Range(0.05, 0.5)
			in[iI("demand")][t] = 0
		}
	case 2:
		for t := 0; t < T; t++ {
			in[iI("inflow")][t] = 0
			in[iI("demand")][t] = relTop*c.R.Range(0.5, 3) + 1
			in[iI("rainfall")][t] = 0
		}
	case 3:
		for t := 0; t < T; t++ {
			in[iI("rainfall")][t] = c.R.Range(50, 300)
			in[iI("pet")][t] = 0
		}
	case 4:
		for t := 0; t < T; t++ {
			in[iI("rainfall")][t] = 0
			in[iI("pet")][t] = c.R.Range(5, 50)
			in[iI("inflow")][t] *= 0.01
			in[iI("demand")][t] = 0
		}
	case 5:
		for t := 0; t < T; t++ {
			in[iI("demand")][t] = relTop * c.R.Range(0, 2)
		}
	case 7:
		// wet and dry seasons around the release capacity: the volume keeps moving along the sloped curve
		season := c.R.IntRange(10, 60)
		for t := 0; t < T; t++ {
			f := c.R.Range(0, 0.3)
			if (t/season)%2 == 0 {
				f = c.R.Range(0.8, 1.5)
			}
			in[iI("inflow")][t] = qcap * f
			in[iI("demand")][t] = qcap*2 + 1
			if c.R.Bool(0.2) { // an order that the curves allow at most volumes: the release must equal it
				in[iI("demand")][t] = qcap * c.R.Range(0.02, 0.2)
			}
			if c.R.Bool(0.7) {
				in[iI("rainfall")][t], in[iI("pet")][t] = 0, 0
			}
		}
	case 8:
		// the order equals the inflow exactly (a run-of-river order) and rainfall equals PET (often both zero), at every
		// level of the order relative to the release curves
		for t := 0; t < T; t++ {
			q := relTop * c.R.Range(0, 1.3)
			in[iI("inflow")][t], in[iI("demand")][t] = q, q
			e := pick(c.R, 0, 0, c.R.Range(0, 20))
			in[iI("rainfall")][t], in[iI("pet")][t] = e, e
		}
	case 6:
		for t := 0; t < T; t++ {
			in[iI("inflow")][t] = minRel[n-1] * c.R.Range(1, 2)
			in[iI("demand")][t] = 0
			in[iI("rainfall")][t], in[iI("pet")][t] = 0, 0
		}
	}
	v0 := vmax * c.R.Range(0, 1.2)
	if scenario == 6 {
		v0 = vmax * c.R.Range(0.9, 1.05)
	}
	if c.R.Bool(0.15) {
		v0 = 0
	} else if c.R.Bool(0.15) {
		v0 = vols[c.R.Intn(n)] // exactly on a knot of the level-volume-area table (the last one = exactly full supply)
		c.Tag("initial-volume-on-knot")
	}
	run := &MRun{Model: model, N: 1, T: T, Sets: []PSet{ps}, Inputs: [][][]float64{in}, States: [][]float64{{v0, interpTable(v0, vols, levels), interpTable(v0, vols, areas)}}}
	c.Begin(map[string]interface{}{"model": model, "scenario": scn, "run": run})
	storage.VerifSubsteps()
	out, err := ExecuteFor(c, run)
	if err != nil {
		c.Violate("prepare", model, err.Error())
		return
	}
	subs := storage.VerifSubsteps()
	if c.R.Bool(0.25) {
		CheckEmptyRun(c, model, run.Sets, out.States)
		storage.VerifSubsteps()
	}
	if long {
		c.Tag("long-run")
		c.Max("max_substeps_in_one_run", float64(len(subs)))
		c.Max("max_timesteps_in_one_run", float64(T))
	}
	o := func(s string) []float64 { return out.Out[0][indexOf(desc.Outputs, s)] }
	V, Q, RV, EV := o("volume"), o("outflow"), o("rainfallVolume"), o("evaporationVolume")
	prev := v0
	tags := map[string]bool{}
	tag := func(s string) { tags[s] = true; c.Tag(s) }
	anyFlux := false
	for t := 0; t < T; t++ {
		inflow := in[iI("inflow")][t]
		if inflow != 0 || Q[t] != 0 || RV[t] != 0 || EV[t] != 0 {
			anyFlux = true
		}
		for _, v := range []float64{V[t], Q[t], RV[t], EV[t]} {
			if !core.Finite(v) {
				c.Violate("nonfinite", model, fmt.Sprintf("t=%d: volume=%v outflow=%v rainfallVolume=%v evaporationVolume=%v", t, V[t], Q[t], RV[t], EV[t]))
				return
			}
		}
		if V[t] < 0 {
			c.Violate("negative-volume", model, fmt.Sprintf("t=%d: volume=%v", t, V[t]))
		}
		if Q[t] < -1e-12 || RV[t] < -1e-12 || EV[t] < -1e-12 {
			c.Violate("negative-flux", model, fmt.Sprintf("t=%d: outflow=%v rainfallVolume=%v evaporationVolume=%v", t, Q[t], RV[t], EV[t]))
		}
		dV := V[t] - prev
		want := (inflow-Q[t])*dt + (RV[t]-EV[t])*dt
		tol := 1e-6 * math.Max(1, math.Max(math.Abs(V[t]), math.Abs(prev)))
		c.Max("worst_balance_residual_m3", math.Abs(dV-want))
		c.Count("timesteps", 1)
		if math.Abs(dV-want) > tol {
			atm := "none"
			if in[iI("rainfall")][t] != 0 || in[iI("pet")][t] != 0 {
				atm = "rain-or-pet"
			}
			c.Violate("water-balance", model, fmt.Sprintf("t=%d: volume change %v but (inflow-outflow)*dt + (rainfallVolume-evaporationVolume)*dt = %v (residual %v m3); volume %v->%v inflow=%v outflow=%v rainfallVolume=%v evaporationVolume=%v rainfall=%vmm pet=%vmm area~%v",
				t, dV, want, dV-want, prev, V[t], inflow, Q[t], RV[t], EV[t], in[iI("rainfall")][t], in[iI("pet")][t], interpTable(V[t], vols, areas)), "atmosphere", atm)
			break
		}
		if V[t] == 0 {
			tag("empty")
		}
		prev = V[t]
	}
	if !anyFlux {
		c.Trivial()
	}
	// final level / area = table values of the final volume
	fs := out.States[0]
	vf := fs[0]
	if !core.BitEq(vf, V[T-1]) {
		c.Violate("final-state", model, fmt.Sprintf("final volume state %v differs from the last reported volume %v", vf, V[T-1]))
	}
	if tableFrom > 0 {
		c.Tag("table-starts-above-empty")
	}
	if tableFrom > 0 && vf < vols[0] {
		// below the first knot: no table value to compare with
	} else if wl := interpTable(vf, vols, levels); !core.RelClose(fs[1], wl, 1e-9, 1e-9) {
		c.Violate("final-level", model, fmt.Sprintf("final level %v, table value for volume %v is %v", fs[1], vf, wl))
	}
	if tableFrom > 0 && vf < vols[0] {
	} else if wa := interpTable(vf, vols, areas); !core.RelClose(fs[2], wa, 1e-9, 1e-9) {
		c.Violate("final-area", model, fmt.Sprintf("final area %v, table value for volume %v is %v", fs[2], vf, wa))
	}
	// ---- sub-step stream
	c.Count("substeps_accepted", 0)
	ti := 0
	accDt, accOut, accRain, accEvap := 0.0, 0.0, 0.0, 0.0
	nAcc := 0
	for _, s := range subs {
		if !s.Accepted {
			c.Count("substeps_rejected", 1)
			continue
		}
		c.Count("substeps_accepted", 1)
		if ti >= T {
			c.Violate("substep-stream", model, "more accepted sub-steps than timesteps can hold")
			break
		}
		nAcc++
		demand := in[iI("demand")][ti]
		rainPS := in[iI("rainfall")][ti] / dt
		petPS := in[iI("pet")][ti] / dt
		accDt += s.Dt
		accOut += s.AvgOutflow*s.Dt + s.Spill
		accRain += rainPS * 1e-3 * s.AvgArea * s.Dt
		accEvap += petPS * 1e-3 * s.AvgArea * s.Dt
		// release rules over the volumes traversed (before spill is removed)
		vEnd := s.Vol1 + s.Spill
		belowTable := tableFrom > 0 && (s.Vol0 < vols[0] || vEnd < vols[0])
		minLo, _ := tableRange(s.Vol0, vEnd, vols, minRel)
		_, maxHi := tableRange(s.Vol0, vEnd, vols, maxRel)
		rtol := 1e-4 + 1e-5*math.Abs(s.AvgOutflow)
		if !belowTable && (s.AvgOutflow < minLo-rtol || s.AvgOutflow > maxHi+rtol) {
			c.Violate("release-outside-curves", model, fmt.Sprintf("timestep %d sub-step of %vs: release %v outside [min of minRelease %v, max of maxRelease %v] over volumes %v..%v (demand %v)", ti, s.Dt, s.AvgOutflow, minLo, maxHi, s.Vol0, vEnd, demand))
		}
		mn0, mx0 := interpTable(s.Vol0, vols, minRel), interpTable(s.Vol0, vols, maxRel)
		mn1, mx1 := interpTable(vEnd, vols, minRel), interpTable(vEnd, vols, maxRel)
		switch {
		case belowTable:
		case demand >= math.Max(mn0, mn1) && demand <= math.Min(mx0, mx1):
			tag("demand-met")
			if math.Abs(s.AvgOutflow-demand) > rtol {
				nextDemand := math.NaN()
				if ti+1 < T {
					nextDemand = in[iI("demand")][ti+1]
				}
				c.Violate("release-not-demand", model, fmt.Sprintf("timestep %d: demand %v lies between the release curves at both ends of the sub-step (%v..%v and %v..%v) but the release is %v [sub-step dt=%v, accepted so far in this timestep %v of %v s, next timestep's demand %v]", ti, demand, mn0, mx0, mn1, mx1, s.AvgOutflow, s.Dt, accDt, dt, nextDemand))
			}
		case demand > math.Max(mx0, mx1):
			tag("demand-above-max")
		case demand < math.Min(mn0, mn1):
			tag("demand-below-min")
		}
		if s.Spill > 0 {
			tag("spill")
			if vEnd < vmax*(1-1e-9) { // clearly below full supply (the hook reports the volume after the spill; re-adding it rounds)
				c.Violate("spill-below-full-supply", model, fmt.Sprintf("timestep %d: spill %v m3 with volume %v not above the full-supply volume %v", ti, s.Spill, vEnd, vmax))
			}
		}
		// a timestep ends with the accepted sub-step that leaves the volume the model reports for it
		// (sub-steps may be arbitrarily short slivers, so the time sum alone cannot find the boundary)
		if accDt >= dt*(1-1e-6) && core.BitEq(s.Vol1, V[ti]) {
			if math.Abs(accDt-dt) > 1e-6*dt {
				c.Violate("substeps-do-not-sum", model, fmt.Sprintf("timestep %d: accepted sub-steps sum to %v s, timestep is %v s", ti, accDt, dt))
			}
			if nAcc > 1 {
				tag("substeps>1")
			}
			c.Max("max_substeps_per_timestep", float64(nAcc))
			if !core.RelClose(Q[ti]*dt, accOut, 1e-9, 1e-6) {
				c.Violate("outflow-accounting", model, fmt.Sprintf("timestep %d: reported outflow*dt=%v but accepted sub-steps released+spilled %v", ti, Q[ti]*dt, accOut))
			}
			if !core.RelClose(RV[ti]*dt, accRain, 1e-9, 1e-6) || !core.RelClose(EV[ti]*dt, accEvap, 1e-9, 1e-6) {
				c.Violate("atmospheric-accounting", model, fmt.Sprintf("timestep %d: reported rainfall/evaporation volumes %v / %v m3 but the accepted sub-steps (and only those) give %v / %v m3", ti, RV[ti]*dt, EV[ti]*dt, accRain, accEvap))
			}
			ti++
			accDt, accOut, accRain, accEvap, nAcc = 0, 0, 0, 0, 0
		} else if accDt > dt*(1+1e-6) {
			c.Violate("substeps-do-not-sum", model, fmt.Sprintf("timestep %d: accepted sub-steps add up to %v s (> timestep %v s) without reaching the reported volume %v", ti, accDt, dt, V[ti]))
			break
		}
	}
	if len(subs) > 0 && ti != T && len(c.Res.Violations) == 0 {
		c.Violate("substep-stream", model, fmt.Sprintf("accepted sub-steps cover %d of %d timesteps", ti, T))
	}
	ts := ""
	for _, k := range []string{"spill", "empty", "substeps>1", "demand-met", "demand-above-max", "demand-below-min"} {
		if tags[k] {
			ts += k + ","
		}
	}
	c.Class(fmt.Sprintf("%s/n%d/%s", scn, n, ts))
}

// storageTrackingRun: a simulation-length Storage run whose release tracks a sloped curve while the volume cycles with
// wet and dry seasons (the long-run scenario of C13), for checks that need many sub-steps in one call.
func storageTrackingRun(r *core.Rand, T int) *MRun {
	model := "Storage"
	desc := NewModel(model).Description()
	n := r.IntRange(2, 6)
	ps := storagePSet(desc, r, n)
	ps[paramIndex(desc, "DeltaT")][0] = 86400
	tbl := func(name string) []float64 { return ps[paramIndex(desc, name)] }
	vols, areas, levels, minRel, maxRel := tbl("volumes"), tbl("areas"), tbl("levels"), tbl("minRelease"), tbl("maxRelease")
	vmax := vols[n-1]
	qcap := vmax / 86400 * r.Range(0.05, 0.2)
	pw := r.Range(0.5, 2)
	for i := 0; i < n; i++ {
		minRel[i] = 0
		maxRel[i] = qcap * math.Pow(vols[i]/vmax, pw)
	}
	in := GenInputs(model, r, T, ps)
	iI := func(s string) int { return indexOf(desc.Inputs, s) }
	season := r.IntRange(10, 60)
	for t := 0; t < T; t++ {
		f := r.Range(0, 0.3)
		if (t/season)%2 == 0 {
			f = r.Range(0.8, 1.5)
		}
		in[iI("inflow")][t] = qcap * f
		in[iI("demand")][t] = qcap*2 + 1
		if r.Bool(0.2) {
			in[iI("demand")][t] = qcap * r.Range(0.02, 0.2)
		}
		if r.Bool(0.7) {
			in[iI("rainfall")][t], in[iI("pet")][t] = 0, 0
		}
	}
	v0 := vmax * r.Range(0.1, 1)
	return &MRun{Model: model, N: 1, T: T, Sets: []PSet{ps}, Inputs: [][][]float64{in}, States: [][]float64{{v0, interpTable(v0, vols, levels), interpTable(v0, vols, areas)}}}
}
