package props

// C02 - bulk array operations equal their element-by-element, row-major definition.

import (
	"fmt"

	"github.com/flowmatters/openwater-core/data"
	"verif/core"
)

var gridKinds = []string{"contiguous", "row-gapped", "column", "stepped", "single", "one-wide"}
var gridShapes = [][2]int{{1, 1}, {3, 1}, {1, 4}, {2, 3}, {4, 2}}
var gridOps = []string{"scale", "addto", "applyfunc1", "applyslice", "copyfrom"}

func init() {
	core.Register(&core.Prop{
		ID:    "C02",
		Level: "exploration",
		Rule: "histories: generated op sequences incl. Reshape/ReshapeFast/Unroll/Maximum/Minimum/bulk helpers vs the shadow model (contiguity truth table, aliasing probes, error rules); " +
			"grid: every feasible (dest kind x source kind x op x type) combination of the two-array operations; inthelpers: exhaustive vectors of length<=4 with entries 0..5; " +
			"distinct = distinct (workload, type, kinds/ops/depth class); non-trivial = touches at least one element",
		Assumptions: []string{
			"two-array operations: source elements disjoint from destination elements, or the identical view, or other storage",
			"non-contiguous Reshape results are only compared by value (a copy or an alias are both accepted)",
			"Argmax ties: any index attaining the maximum is accepted",
			"integer helpers enumerated exhaustively on vectors of length 1..4 with entries 0..5 (1..5 for dims)",
		},
		Workloads: []core.Workload{
			{Name: "histories", Variant: "plain", N: core.Tiered(8*200, 8*25000), Run: c02History},
			{Name: "grid", Variant: "plain", N: func(string) int { return len(gridShapes) * 36 * len(gridOps) * 6 }, Run: c02Grid},
			{Name: "inthelpers", Variant: "plain", N: core.Tiered(4, 4), Run: c02Ints},
		},
		RequireTags: func(string) []string {
			return []string{"bulk:scale:fast", "bulk:scale:general", "bulk:addto:fast", "bulk:addto:general", "bulk:applyfunc1:fast", "bulk:applyfunc1:general",
				"grid:applyslice:fast", "grid:applyslice:general", "grid:addto:fast", "grid:addto:general"}
		},
		Exhaustive: func(string) bool { return false },
	})
}

func c02History(c *core.Ctx) {
	typ := arrayTypes[c.Idx%8]
	p := genProgram(c.R, typ, "go", progOpts{nOps: c.R.IntRange(15, 50), allowBulk: true, maxViews: 12})
	c.Begin(p)
	execTyped(c, p, []string{"go"}, execOpts{prop: "", checkBulk: true})
}

// makeKindView builds a root array and a view of shape (r,c) of the requested contiguity kind.
// Returns nil when the kind is not realisable for that shape.
func makeKindView[T Num](b *Backend[T], kind string, r, cdim int, base int) (root Arr[T], buf []T, view Arr[T], sh *sView[T]) {
	var rootDims, loc, step []int
	dims := []int{r, cdim}
	switch kind {
	case "contiguous":
		rootDims, loc, step = []int{r + 2, cdim}, []int{1, 0}, nil
	case "row-gapped":
		if r < 2 {
			return
		}
		rootDims, loc, step = []int{r + 1, cdim + 2}, []int{0, 1}, nil
	case "column":
		if cdim != 1 || r < 2 {
			return
		}
		rootDims, loc, step = []int{r + 2, 3}, []int{1, 1}, nil
	case "stepped":
		if r > 1 {
			rootDims, loc, step = []int{2*r + 1, cdim}, []int{1, 0}, []int{2, 1}
		} else if cdim > 1 {
			rootDims, loc, step = []int{r, 2*cdim + 1}, []int{0, 1}, []int{1, 2}
		} else {
			return
		}
	case "single":
		if r != 1 || cdim != 1 {
			return
		}
		rootDims, loc, step = []int{3, 3}, []int{1, 1}, nil
	case "one-wide":
		if cdim != 1 {
			return
		}
		rootDims, loc, step = []int{r + 1, 1}, []int{1, 0}, nil
	}
	n := prod(rootDims)
	buf = make([]T, n)
	shRoot := newShadowRoot[T](0, rootDims)
	for i := range buf {
		buf[i] = T(base + i)
		shRoot.st.data[i] = buf[i]
	}
	root = b.FromSlice(buf, cpInts(rootDims))
	view = root.Slice(cpInts(loc), cpInts(dims), cpInts(step))
	sh = shRoot.slice(loc, dims, step)
	return
}

func c02Grid(c *core.Ctx) {
	idx := c.Idx
	ti := idx % 6
	idx /= 6
	op := gridOps[idx%len(gridOps)]
	idx /= len(gridOps)
	ks := gridKinds[idx%6]
	idx /= 6
	kd := gridKinds[idx%6]
	idx /= 6
	shp := gridShapes[idx%len(gridShapes)]
	typ := arrayTypes[ti] // the six types that have bulk helpers
	desc := map[string]interface{}{"model": "array/" + typ, "op": op, "dest_kind": kd, "source_kind": ks, "shape": shp}
	c.Begin(desc)
	withBackend(typ,
		func(b *Backend[float64]) { gridCase(c, b, op, kd, ks, shp) },
		func(b *Backend[float32]) { gridCase(c, b, op, kd, ks, shp) },
		func(b *Backend[int32]) { gridCase(c, b, op, kd, ks, shp) },
		func(b *Backend[uint32]) { gridCase(c, b, op, kd, ks, shp) },
		func(b *Backend[int64]) { gridCase(c, b, op, kd, ks, shp) },
		func(b *Backend[uint64]) { gridCase(c, b, op, kd, ks, shp) },
		nil, nil)
}

func gridCase[T Num](c *core.Ctx, b *Backend[T], op, kd, ks string, shp [2]int) {
	model := "array/" + b.Type
	_, dbuf, dv, dsh := makeKindView(b, kd, shp[0], shp[1], 100)
	_, sbuf, sv, ssh := makeKindView(b, ks, shp[0], shp[1], 500)
	if dv == nil || sv == nil {
		c.Trivial()
		c.Class("infeasible")
		return
	}
	c.Class(fmt.Sprintf("grid/%s/%s/%s/%s/%v", b.Type, op, kd, ks, shp))
	// contiguity report must match adjacency for both operands
	for _, pr := range []struct {
		v  Arr[T]
		s  *sView[T]
		nm string
	}{{dv, dsh, "dest"}, {sv, ssh, "source"}} {
		if pr.v.Contiguous() != pr.s.contiguous() {
			c.Violate("contiguous-wrong", model, fmt.Sprintf("%s view of kind %s shape %v (offsets %v) reports Contiguous()=%v, adjacency=%v", pr.nm, map[string]string{"dest": kd, "source": ks}[pr.nm], shp, pr.s.offs, pr.v.Contiguous(), pr.s.contiguous()))
		}
	}
	fast := dsh.contiguous() && ssh.contiguous()
	path := "general"
	if fast {
		path = "fast"
	}
	c.Tag("grid:" + op + ":" + path)
	c.Count("grid/"+op+"/"+path, 1)
	src := ssh.values()
	want := append([]T{}, dsh.st.data...)
	for i, o := range dsh.offs {
		switch op {
		case "scale":
			want[o] = src[i] * 2
		case "addto":
			want[o] = want[o] + src[i]
		case "applyfunc1":
			want[o] = src[i] + 1
		default:
			want[o] = src[i]
		}
	}
	srcBefore := append([]T{}, sbuf...)
	ok := c.Guard("panic", model, func() {
		switch op {
		case "scale":
			b.Scale(dv, sv, 2)
		case "addto":
			b.AddTo(dv, sv)
		case "applyfunc1":
			b.ApplyFunc1(dv, sv, func(x T) T { return x + 1 })
		case "applyslice":
			dv.ApplySlice(make([]int, 2), nil, sv)
		case "copyfrom":
			dv.CopyFrom(sv)
		}
	})
	if !ok {
		return
	}
	for k := range want {
		if !eqT(dbuf[k], want[k]) {
			c.Violate("bulk-result", model, fmt.Sprintf("%s with dest kind %s, source kind %s, shape %v (%s path): destination storage[%d]=%v, element-by-element definition gives %v", op, kd, ks, shp, path, k, dbuf[k], want[k]), "op", op, "path", path)
			break
		}
	}
	for k := range srcBefore {
		if !eqT(sbuf[k], srcBefore[k]) {
			c.Violate("bulk-source-modified", model, fmt.Sprintf("%s modified its source storage[%d]", op, k))
			break
		}
	}
}

// ---------------------------------------------------------------------------
// integer helpers, exhaustive on a small box

func c02Ints(c *core.Ctx) {
	n := c.Idx + 1 // vector length 1..4
	c.Begin(map[string]interface{}{"model": "int-helpers", "vector_length": n, "entries": "0..5"})
	c.Class(fmt.Sprintf("ints/len%d", n))
	total := 1
	for i := 0; i < n; i++ {
		total *= 6
	}
	vec := make([]int, n)
	for code := 0; code < total; code++ {
		x := code
		allPos := true
		for i := 0; i < n; i++ {
			vec[i] = x % 6
			x /= 6
			if vec[i] == 0 {
				allPos = false
			}
		}
		v := cpInts(vec)
		// Product
		p := 1
		for _, e := range v {
			p *= e
		}
		if g := data.Product(cpInts(v)); g != p {
			c.Violate("int-product", "int-helpers", fmt.Sprintf("Product(%v)=%d, expected %d", v, g, p))
		}
		// Maximum / Argmax
		mx := v[0]
		for _, e := range v {
			if e > mx {
				mx = e
			}
		}
		if g := data.Maximum(cpInts(v)); g != mx {
			c.Violate("int-maximum", "int-helpers", fmt.Sprintf("Maximum(%v)=%d, expected %d", v, g, mx))
		}
		if g := data.Argmax(cpInts(v)); g < 0 || g >= n || v[g] != mx {
			c.Violate("int-argmax", "int-helpers", fmt.Sprintf("Argmax(%v)=%d, but the maximum %d is not at that index", v, g, mx))
		}
		c.Count("int_helper_vectors", 1)
		if !allPos {
			continue
		}
		// Offsets: row-major strides
		off := make([]int, n)
		off[n-1] = 1
		for i := n - 2; i >= 0; i-- {
			off[i] = off[i+1] * v[i+1]
		}
		if g := data.Offsets(cpInts(v)); !sameShape(g, off) {
			c.Violate("int-offsets", "int-helpers", fmt.Sprintf("Offsets(%v)=%v, expected %v", v, g, off))
		}
		// Multiply with a second vector derived from the code
		w := make([]int, n)
		mul := make([]int, n)
		for i := range w {
			w[i] = (code/(i+1) + i) % 6
			mul[i] = v[i] * w[i]
		}
		if g := data.Multiply(cpInts(v), cpInts(w)); !sameShape(g, mul) {
			c.Violate("int-multiply", "int-helpers", fmt.Sprintf("Multiply(%v,%v)=%v, expected %v", v, w, g, mul))
		}
		// IDivMod and Increment over every position of the shape v
		size := p
		pos := make([]int, n)
		for f := 0; f < size; f++ {
			wantLoc := unflatten(v, f)
			if g := data.IDivMod(f, cpInts(off), cpInts(v)); !sameShape(g, wantLoc) {
				c.Violate("int-idivmod", "int-helpers", fmt.Sprintf("IDivMod(%d,%v,%v)=%v, expected %v", f, off, v, g, wantLoc))
				break
			}
			if !sameShape(pos, wantLoc) {
				c.Violate("int-increment", "int-helpers", fmt.Sprintf("after %d Increment calls over shape %v the index is %v, expected %v", f, v, pos, wantLoc))
				break
			}
			data.Increment(pos, v)
		}
		// wrap-around
		zero := make([]int, n)
		if size > 0 && !sameShape(pos, zero) {
			c.Violate("int-increment", "int-helpers", fmt.Sprintf("Increment does not wrap to zero after the last position of shape %v: %v", v, pos))
		}
		c.Count("int_helper_positions", float64(size))
	}
}
