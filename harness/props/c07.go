package props

// C07 - ow-sim executes a model graph exactly like the sequential reference semantics.
// The real cmd/ow-sim binary (built from /repo against the HDF5 shim, tag verif) runs as a
// child process; the harness writes the model-graph file and reads the results through the
// shim's tree API, independently of the code under test.

import (
	"bytes"
	"context"
	"encoding/binary"
	"fmt"
	"math"
	"os"
	"os/exec"
	"path/filepath"
	"sort"
	"strconv"
	"strings"
	"syscall"
	"time"

	"gonum.org/v1/hdf5"
	"verif/core"
)

func init() {
	core.Register(&core.Prop{
		ID:    "C07",
		Level: "exploration",
		Rule: "case = random model graph (2-5 model types, 1-6 generations incl. empty batches, 0-4 nodes per model and generation, 0-25 links incl. fan-in/fan-out, models with and without stored inputs, optional table-parameter model) x command-line output selection x delay seed at the hook points; " +
			"ow-sim's output datasets are compared bit-for-bit with a sequential reference executor, the shim op log with 'each (dataset, generation block) written exactly once', and the hook trace with the writer-protocol ordering rules; distinct = distinct (graph shape class, flags, interleaving hash); non-trivial = at least one node ran",
		Assumptions: []string{
			"valid model-graph files only: links go to strictly later generations and /LINKS is sorted by source generation (as openwater writes it)",
			"the HDF5 library is replaced by the shim (trusted base, DESIGN 3.3)",
			"link destinations are models that accept any non-negative series; kernels are deterministic, so the reference (one cell at a time through the catalogue) must match bit-for-bit",
			"a watchdog expiry is inconclusive unless the goroutine dump shows every goroutine blocked (deadlock)",
		},
		Needs: []string{"owsim"},
		Workloads: []core.Workload{
			{Name: "graphs", Variant: "plain", N: core.Tiered(120, 3000), Run: c07Case, TimeoutS: 300},
		},
		RequireTags: func(string) []string {
			return []string{"graph:empty-batch", "graph:fan-in", "graph:no-stored-inputs", "flags:split-outputs", "flags:final-states"}
		},
		ExpectTags: func(string) []string { return []string{"trace:writer-behind", "trace:checked", "graph:long-series-fan-in>=3"} },
	})
}

var owsimDestModels = []string{"Input", "Sum", "Gate", "FixedPartition", "ApplyScalingFactor", "DepthToRate", "EmcDwc", "Muskingum", "StorageRouting",
	"Lag", "LumpedConstituentRouting", "RunoffCoefficient", "Simhyd", "Surm", "GR4J", "Sacramento", "PartitionDemand", "InstreamCoarseSediment", "ConstituentDecay"}

type gModel struct {
	Name        string      `json:"name"`
	Batches     []int       `json:"batches_cumulative"`
	Sets        []PSet      `json:"param_sets_per_node"`
	States      [][]float64 `json:"states_per_node"`
	HasInputs   bool        `json:"has_stored_inputs"`
	Inputs      [][][]float64 `json:"stored_inputs,omitempty"`
	nIn, nOut, nSt int
}

type gLink struct {
	SrcGen, SrcModel, SrcIdx, SrcVar     int
	DestGen, DestModel, DestIdx, DestVar int
}

type graphCase struct {
	Model     string   `json:"model"`
	Models    []gModel `json:"models"`
	G         int      `json:"generations"`
	T         int      `json:"timesteps"`
	Links     []gLink  `json:"links"`
	Flags     []string `json:"flags"`
	Split     map[string]string `json:"split_outputs,omitempty"`
	DelaySeed uint64   `json:"delay_seed"`
	DelayMax  int      `json:"delay_max_us"`
	DelayOnly string   `json:"delay_only_at,omitempty"`
	Race      bool     `json:"race_build"`
}

func (m *gModel) count(g int) int {
	if g == 0 {
		return m.Batches[0]
	}
	return m.Batches[g] - m.Batches[g-1]
}

func (m *gModel) offset(g int) int {
	if g == 0 {
		return 0
	}
	return m.Batches[g-1]
}

func genGraph(r *core.Rand, race bool) *graphCase {
	gc := &graphCase{Model: "ow-sim", Race: race}
	gc.G = r.IntRange(1, 6)
	gc.T = []int{1, 5, 30}[r.Intn(3)]
	nm := r.IntRange(2, 5)
	// simulation-length series (decades of daily steps) on a small graph with heavy fan-in
	long := r.Bool(0.08) || (race && r.Bool(0.25)) // C05's few graphs lean towards the order-sensitive shape
	maxNodes := 4
	if long {
		gc.T = []int{4095, 4096, 5000, 8192, 10000}[r.Intn(5)]
		if race {
			gc.T = []int{4096, 4097, 5000}[r.Intn(3)] // the -race build is 5-10x slower
		}
		gc.G = r.IntRange(2, 4)
		nm = r.IntRange(2, 3)
		maxNodes = 2
	}
	perm := r.Perm(len(owsimDestModels))
	names := []string{}
	for i := 0; i < nm; i++ {
		names = append(names, owsimDestModels[perm[i]])
	}
	if r.Bool(0.3) && !long { // (a Storage node sub-steps thousands of times per timestep: not in simulation-length graphs)
		names[0] = []string{"Storage", "RatingCurvePartition"}[r.Intn(2)] // table-parameter model, used as a source only
	}
	// model types whose name is a prefix of another type's name, and a selection that names only the longer one
	clash := ""
	if r.Bool(0.2) && !long {
		pair := [][2]string{{"Storage", "StorageRouting"}, {"DynamicSednetGully", "DynamicSednetGullyAlt"}, {"Storage", "StorageDissolvedDecay"}}[r.Intn(3)]
		names[0], names[1] = pair[0], pair[1]
		for i := 2; i < len(names); i++ {
			if names[i] == pair[0] || names[i] == pair[1] {
				names[i] = "Sum"
			}
		}
		dedup := map[string]bool{}
		var nn []string
		for _, n := range names {
			if !dedup[n] {
				dedup[n] = true
				nn = append(nn, n)
			}
		}
		names = nn
		clash = pair[1]
	}
	sort.Strings(names) // /META/models order is free; keep deterministic
	// catchment-sized batches: one model type has, in one generation, a node count on or beside a power of two / a
	// round number (a block or worker scheme inside ow-sim or inside Run only fails on exact multiples of its block)
	wideModel, wideGen, wideN := -1, -1, 0
	if !long && r.Bool(0.2) {
		wideModel, wideGen = r.Intn(len(names)), r.Intn(gc.G)
		wideN = []int{31, 33, 63, 65, 96, 100, 127, 129, 255, 257, 384, 500, 1000}[r.Intn(13)]
		if r.Bool(0.5) {
			wideN = []int{32, 64, 128, 128, 256, 256, 512, 1024}[r.Intn(8)]
		}
		if gc.T > 5 {
			gc.T = 5
		}
	}
	anyInputs := false
	for mi, name := range names {
		desc := NewModel(name).Description()
		m := gModel{Name: name, nIn: len(desc.Inputs), nOut: len(desc.Outputs), nSt: len(desc.States)}
		total := 0
		table := len(desc.Dimensions) > 0
		for g := 0; g < gc.G; g++ {
			n := r.IntRange(0, maxNodes)
			if r.Bool(0.25) && !(long && g < 2) {
				n = 0 // empty batch
			}
			if table && g == 0 && n == 0 {
				n = 1
			}
			if mi == wideModel && g == wideGen {
				n = wideN
			}
			if table && n > 2 {
				n = 2
			}
			total += n
			m.Batches = append(m.Batches, total)
		}
		wc := 1 + r.Intn(13)
		for k := 0; k < total; k++ {
			m.Sets = append(m.Sets, GenPSet(name, r, genOpts{widthClass: wc}))
		}
		m.HasInputs = r.Bool(0.6) || table || (mi == len(names)-1 && !anyInputs)
		if total == 0 {
			m.HasInputs = false
		}
		if m.HasInputs {
			anyInputs = true
			for k := 0; k < total; k++ {
				m.Inputs = append(m.Inputs, GenInputs(name, r, gc.T, m.Sets[k]))
			}
			// pass-through sources with sign patterns that flows and loads do not have but that links must carry all the
			// same: series that never rise above zero, all-zero series, a single non-zero value
			if name == "Input" || name == "Sum" || name == "ApplyScalingFactor" {
				for k := 0; k < total; k++ {
					for j := range m.Inputs[k] {
						switch r.Intn(6) {
						case 0:
							for t := range m.Inputs[k][j] {
								m.Inputs[k][j][t] = -math.Abs(m.Inputs[k][j][t])
								if r.Bool(0.4) {
									m.Inputs[k][j][t] = 0
								}
							}
						case 1:
							for t := range m.Inputs[k][j] {
								m.Inputs[k][j][t] = 0
							}
							if r.Bool(0.5) {
								m.Inputs[k][j][r.Intn(gc.T)] = r.Range(-5, 5)
							}
						}
					}
				}
			}
		}
		// initial states: the model's own
		if total > 0 {
			run := &MRun{Model: name, N: total, T: 1, Sets: m.Sets, Inputs: [][][]float64{make([][]float64, m.nIn)}}
			for j := range run.Inputs[0] {
				run.Inputs[0][j] = make([]float64, 1)
			}
			if p, err := Prepare(run); err == nil {
				m.States = From2(p.States)
			}
		}
		gc.Models = append(gc.Models, m)
	}
	if !anyInputs {
		// make sure the simulation length is defined: give the first model with nodes stored inputs
		for i := range gc.Models {
			m := &gc.Models[i]
			if m.Batches[gc.G-1] > 0 {
				m.HasInputs = true
				for k := 0; k < m.Batches[gc.G-1]; k++ {
					m.Inputs = append(m.Inputs, GenInputs(m.Name, r, gc.T, m.Sets[k]))
				}
				break
			}
		}
	}
	// links: source in generation gs, destination in a strictly later generation, destination not a table model
	nl := r.IntRange(0, 25)
	for k := 0; k < nl; k++ {
		if gc.G < 2 {
			break
		}
		gs := r.IntRange(0, gc.G-2)
		gd := r.IntRange(gs+1, gc.G-1)
		ms, md := r.Intn(len(gc.Models)), r.Intn(len(gc.Models))
		src, dst := &gc.Models[ms], &gc.Models[md]
		if src.count(gs) == 0 || dst.count(gd) == 0 || src.nOut == 0 || dst.nIn == 0 {
			continue
		}
		if len(NewModel(dst.Name).Description().Dimensions) > 0 {
			continue
		}
		l := gLink{gs, ms, r.Intn(src.count(gs)), r.Intn(src.nOut), gd, md, r.Intn(dst.count(gd)), r.Intn(dst.nIn)}
		gc.Links = append(gc.Links, l)
		pFan := 0.3
		if long {
			pFan = 0.7
		}
		for extra := 0; extra < 5 && r.Bool(pFan); extra++ { // fan-in: more links into the same input
			l2 := l
			l2.SrcIdx = r.Intn(src.count(gs))
			l2.SrcVar = r.Intn(src.nOut)
			gc.Links = append(gc.Links, l2)
		}
	}
	sort.SliceStable(gc.Links, func(i, j int) bool { return gc.Links[i].SrcGen < gc.Links[j].SrcGen })
	// flags
	pickModels := func() string {
		var s []string
		for _, m := range gc.Models {
			if r.Bool(0.4) {
				s = append(s, m.Name)
			}
		}
		return strings.Join(s, ",")
	}
	clashFlag := ""
	if clash != "" {
		clashFlag = []string{"-outputs-for", "-no-outputs-for", "-inputs-for", "-no-inputs-for"}[r.Intn(4)]
		gc.Flags = append(gc.Flags, clashFlag, clash)
	}
	if r.Bool(0.25) && clashFlag != "-outputs-for" {
		if v := pickModels(); v != "" {
			gc.Flags = append(gc.Flags, "-outputs-for", v)
		}
	}
	if r.Bool(0.25) && clashFlag != "-no-outputs-for" {
		if v := pickModels(); v != "" {
			gc.Flags = append(gc.Flags, "-no-outputs-for", v)
		}
	}
	if r.Bool(0.25) && clashFlag != "-inputs-for" {
		if v := pickModels(); v != "" {
			gc.Flags = append(gc.Flags, "-inputs-for", v)
		}
	}
	if r.Bool(0.25) && clashFlag != "-no-inputs-for" {
		if v := pickModels(); v != "" {
			gc.Flags = append(gc.Flags, "-no-inputs-for", v)
		}
	}
	if r.Bool(0.2) {
		gc.Flags = append(gc.Flags, "-final-states", "FINALSTATES")
	}
	if r.Bool(0.2) {
		gc.Split = map[string]string{}
		m := gc.Models[r.Intn(len(gc.Models))]
		gc.Split[m.Name] = "SPLIT-" + m.Name
	}
	if r.Bool(0.3) {
		gc.Flags = append(gc.Flags, "-v")
	}
	gc.DelaySeed = r.Uint64() % 1000000
	gc.DelayMax = []int{0, 200, 3000, 30000}[r.Intn(4)]
	// asymmetric schedules: a slow writer (lags the main loop by several generations, token bounces),
	// a slow main loop (writer always waiting), or delays everywhere
	gc.DelayOnly = []string{"", "", "write-begin,write-end,token-recv", "run-begin,links-begin,links-end,writer-spawn", "purge,token-sent"}[r.Intn(5)]
	return gc
}

func f64bytes(v []float64) []byte {
	b := make([]byte, 8*len(v))
	for i, x := range v {
		binary.LittleEndian.PutUint64(b[8*i:], math.Float64bits(x))
	}
	return b
}

// writeGraphFile builds the model-graph file through the shim tree.
func writeGraphFile(gc *graphCase, path string) error {
	t := hdf5.NewTree()
	maxLen := 8
	for _, m := range gc.Models {
		if len(m.Name)+1 > maxLen {
			maxLen = len(m.Name) + 1
		}
	}
	raw := make([]byte, len(gc.Models)*maxLen)
	for i, m := range gc.Models {
		copy(raw[i*maxLen:], m.Name)
	}
	t.PutDataset("/META/models", []int{len(gc.Models)}, hdf5.T_STRING, false, maxLen, raw)
	t.PutDataset("/DIMENSIONS/cell", []int{1}, hdf5.T_INTEGER, true, 4, make([]byte, 4))
	lb := make([]byte, 4*10*len(gc.Links))
	for i, l := range gc.Links {
		src, dst := gc.Models[l.SrcModel], gc.Models[l.DestModel]
		row := []int{l.SrcGen, l.SrcModel, src.offset(l.SrcGen) + l.SrcIdx, l.SrcIdx, l.SrcVar, l.DestGen, l.DestModel, dst.offset(l.DestGen) + l.DestIdx, l.DestIdx, l.DestVar}
		for j, v := range row {
			binary.LittleEndian.PutUint32(lb[4*(10*i+j):], uint32(v))
		}
	}
	t.PutDataset("/LINKS", []int{len(gc.Links), 10}, hdf5.T_INTEGER, false, 4, lb)
	for _, m := range gc.Models {
		base := "/MODELS/" + m.Name + "/"
		bb := make([]byte, 4*len(m.Batches))
		for i, v := range m.Batches {
			binary.LittleEndian.PutUint32(bb[4*i:], uint32(v))
		}
		t.PutDataset(base+"batches", []int{len(m.Batches)}, hdf5.T_INTEGER, true, 4, bb)
		total := m.Batches[len(m.Batches)-1]
		desc := NewModel(m.Name).Description()
		rows := FlattenParams(desc, m.Sets)
		if total == 0 {
			rows = make([][]float64, len(desc.Parameters))
			for i := range rows {
				rows[i] = []float64{}
			}
		}
		t.PutDataset(base+"parameters", []int{len(rows), total}, hdf5.T_FLOAT, true, 8, f64bytes(flatten2(rows)))
		nst := 0
		if len(m.States) > 0 {
			nst = len(m.States[0])
		}
		t.PutDataset(base+"states", []int{total, nst}, hdf5.T_FLOAT, true, 8, f64bytes(flatten2(m.States)))
		if m.HasInputs {
			t.PutDataset(base+"inputs", []int{total, m.nIn, gc.T}, hdf5.T_FLOAT, true, 8, f64bytes(flatten3(m.Inputs)))
		}
	}
	return t.Save(path)
}

var errNonFiniteInput = fmt.Errorf("a linked series is not finite")

type refResult struct {
	out    [][][]float64 // [node][output][t]
	states [][]float64
	inputs [][][]float64 // final inputs [node][input][t]
}

// refTerm: one contribution to a node's input: the output series SrcVar of a source node.
type refTerm struct {
	model, node, v int
}

// inKey identifies one input of one node: (model index, node row, input variable).
type inKey [3]int

// linkTerms lists, per destination input, the linked source series in /LINKS order (the order in which ow-sim adds them
// today). Term 0 of every sum is the stored input series (zero if none).
func linkTerms(gc *graphCase) map[inKey][]refTerm {
	t := map[inKey][]refTerm{}
	for _, l := range gc.Links {
		src, dst := &gc.Models[l.SrcModel], &gc.Models[l.DestModel]
		k := inKey{l.DestModel, dst.offset(l.DestGen) + l.DestIdx, l.DestVar}
		t[k] = append(t[k], refTerm{l.SrcModel, src.offset(l.SrcGen) + l.SrcIdx, l.SrcVar})
	}
	return t
}

// referenceRun: the sequential reference semantics of the property. orders optionally gives, for an input, the order in
// which its terms (0 = stored series, i = i-th link) are added; the default is 0,1,2,... (the /LINKS order).
func referenceRun(gc *graphCase, orders map[inKey][]int) (map[string]*refResult, error) {
	res := map[string]*refResult{}
	for i := range gc.Models {
		m := &gc.Models[i]
		total := m.Batches[gc.G-1]
		res[m.Name] = &refResult{out: make([][][]float64, total), states: make([][]float64, total), inputs: make([][][]float64, total)}
	}
	terms := linkTerms(gc)
	for g := 0; g < gc.G; g++ {
		for i := range gc.Models {
			m := &gc.Models[i]
			rr := res[m.Name]
			for k := m.offset(g); k < m.offset(g)+m.count(g); k++ {
				rr.inputs[k] = make([][]float64, m.nIn)
				for j := 0; j < m.nIn; j++ {
					rr.inputs[k][j] = sumTerms(gc, res, i, k, j, terms[inKey{i, k, j}], orders[inKey{i, k, j}], gc.T)
				}
				for _, ser := range rr.inputs[k] {
					for _, v := range ser {
						if math.IsNaN(v) || math.IsInf(v, 0) {
							return nil, errNonFiniteInput
						}
					}
				}
				run := &MRun{Model: m.Name, N: 1, T: gc.T, Sets: []PSet{m.Sets[k]}, Inputs: [][][]float64{rr.inputs[k]}, States: [][]float64{append([]float64{}, m.States[k]...)}}
				o, err := Execute(run)
				if err != nil {
					return nil, err
				}
				rr.out[k] = o.Out[0]
				rr.states[k] = o.States[0]
			}
		}
	}
	return res, nil
}

// sumTerms adds the stored series and the linked series of one input in the given order, over the first T steps.
func sumTerms(gc *graphCase, res map[string]*refResult, mi, node, v int, terms []refTerm, order []int, T int) []float64 {
	m := &gc.Models[mi]
	series := func(ti int) []float64 {
		if ti == 0 {
			if m.HasInputs {
				return m.Inputs[node][v]
			}
			return nil
		}
		t := terms[ti-1]
		return res[gc.Models[t.model].Name].out[t.node][t.v]
	}
	sum := make([]float64, T)
	first := true
	add := func(ti int) {
		s := series(ti)
		if s == nil {
			return
		}
		if first { // the stored series is the start value, not an addend: 0+x would turn -0 into +0
			copy(sum, s[:T])
			first = false
			return
		}
		for t := 0; t < T; t++ {
			sum[t] += s[t]
		}
	}
	if order == nil {
		if !m.HasInputs {
			first = false // ow-sim starts from a zero-initialised block
		}
		for ti := 0; ti <= len(terms); ti++ {
			add(ti)
		}
		return sum
	}
	if !m.HasInputs {
		first = false
	}
	for _, ti := range order {
		add(ti)
	}
	return sum
}

// fitSumOrders: floating-point addition of three or more series depends on the order, and the property does not fix one.
// For every input with at least three non-zero terms whose observed values (the node's row of the inputs dataset, else of
// the outputs dataset) differ from the /LINKS-order sum, look for ONE order of the terms - the same for every timestep -
// that reproduces the observation bit for bit. Returns the orders found and whether some order-sensitive input could not
// be observed (its model's inputs and outputs are both not written).
func fitSumOrders(gc *graphCase, observe func(mi int, what string) ([]float64, []int)) (map[inKey][]int, bool, int) {
	orders := map[inKey][]int{}
	unobservable := false
	found := 0
	terms := linkTerms(gc)
	sensitive := map[inKey]bool{}
	for k, ts := range terms {
		n := len(ts)
		if gc.Models[k[0]].HasInputs {
			n++
		}
		if n >= 3 {
			sensitive[k] = true
		}
	}
	if len(sensitive) == 0 {
		return orders, false, 0
	}
	for g := 0; g < gc.G; g++ {
		for mi := range gc.Models {
			m := &gc.Models[mi]
			for node := m.offset(g); node < m.offset(g)+m.count(g); node++ {
				var keys []inKey
				for j := 0; j < m.nIn; j++ {
					if sensitive[inKey{mi, node, j}] {
						keys = append(keys, inKey{mi, node, j})
					}
				}
				if len(keys) == 0 {
					continue
				}
				res, err := referenceRun(gc, orders)
				if err != nil {
					return orders, unobservable, found
				}
				obsIn, inDims := observe(mi, "inputs")
				obsOut, outDims := observe(mi, "outputs")
				switch {
				case obsIn != nil && len(inDims) == 3 && inDims[2] == gc.T:
					for _, k := range keys {
						row := obsIn[(node*m.nIn+k[2])*gc.T : (node*m.nIn+k[2]+1)*gc.T]
						if core.SameSlice(row, res[m.Name].inputs[node][k[2]]) < 0 {
							continue
						}
						first := 1
						if m.HasInputs {
							first = 0
						}
						if !forEachOrder(first, len(terms[k])+1, func(order []int) bool {
							if core.SameSlice(row, sumTerms(gc, res, mi, node, k[2], terms[k], order, gc.T)) < 0 {
								orders[k] = append([]int{}, order...)
								found++
								return true
							}
							return false
						}) {
							unobservable = true // too many summands to enumerate their orders
						}
					}
				case obsOut != nil && len(outDims) == 3 && outDims[2] == gc.T:
					row := obsOut[node*m.nOut*gc.T : (node+1)*m.nOut*gc.T]
					// the final states see last-bit differences of the inputs that the outputs may round away
					var stRow []float64
					if obsSt, stDims := observe(mi, "states"); obsSt != nil && len(stDims) == 2 && stDims[0] > node {
						stRow = obsSt[node*stDims[1] : (node+1)*stDims[1]]
					}
					if core.SameSlice(row, flatten2(res[m.Name].out[node])) < 0 && (stRow == nil || core.SameSlice(stRow, res[m.Name].states[node]) < 0) {
						continue
					}
					if len(keys) > 1 {
						unobservable = true // several reordered inputs of one node seen only through its outputs: not searched
						continue
					}
					k := keys[0]
					Ts := minInt(gc.T, 64)
					first := 1
					if m.HasInputs {
						first = 0
					}
					if !forEachOrder(first, len(terms[k])+1, func(order []int) bool {
						try := func(T int) bool {
							in := make([][]float64, m.nIn)
							for j := range in {
								in[j] = res[m.Name].inputs[node][j][:T]
							}
							in[k[2]] = sumTerms(gc, res, mi, node, k[2], terms[k], order, T)
							o, err := Execute(&MRun{Model: m.Name, N: 1, T: T, Sets: []PSet{m.Sets[node]}, Inputs: [][][]float64{in}, States: [][]float64{append([]float64{}, m.States[node]...)}})
							if err != nil {
								return false
							}
							for v := 0; v < m.nOut; v++ {
								if core.SameSlice(row[v*gc.T:v*gc.T+T], o.Out[0][v]) >= 0 {
									return false
								}
							}
							if T == gc.T && stRow != nil && core.SameSlice(stRow, o.States[0]) >= 0 {
								return false
							}
							return true
						}
						if try(Ts) && try(gc.T) {
							orders[k] = append([]int{}, order...)
							found++
							return true
						}
						return false
					}) {
						unobservable = true
					}
				default:
					unobservable = true
				}
			}
		}
	}
	return orders, unobservable, found
}

// forEachOrder calls f with every permutation of the term indices first..n-1 (at most 5040 of them) until f returns
// true; it reports false when there are too many terms to enumerate.
func forEachOrder(first, n int, f func([]int) bool) bool {
	if n-first > 7 {
		return false
	}
	p := make([]int, 0, n)
	for i := first; i < n; i++ {
		p = append(p, i)
	}
	n = len(p)
	var rec func(k int) bool
	rec = func(k int) bool {
		if k == n {
			return f(p)
		}
		for i := k; i < n; i++ {
			p[k], p[i] = p[i], p[k]
			if rec(k + 1) {
				return true
			}
			p[k], p[i] = p[i], p[k]
		}
		return false
	}
	rec(0)
	return true
}

func inList(list, name string) bool {
	for _, s := range strings.Split(list, ",") {
		if s == name {
			return true
		}
	}
	return false
}

func flagValue(flags []string, name string) string {
	for i := 0; i+1 < len(flags); i++ {
		if flags[i] == name {
			return flags[i+1]
		}
	}
	return ""
}

func c07Case(c *core.Ctx) { owsimCase(c, false) }

func owsimCase(c *core.Ctx, race bool) {
	gc := genGraph(c.R, race)
	c.Begin(gc)
	dir := os.Getenv("VERIF_WORKDIR")
	if dir == "" {
		dir = "/verif/work/C07"
	}
	dir = filepath.Join(dir, fmt.Sprintf("g-%d-%d", os.Getpid(), c.Idx))
	os.MkdirAll(dir, 0755)
	defer os.RemoveAll(dir)
	inFile, outFile := filepath.Join(dir, "in.h5"), filepath.Join(dir, "out.h5")
	if err := writeGraphFile(gc, inFile); err != nil {
		c.Inconclusive("cannot write graph file: " + err.Error())
		return
	}
	// graph shape tags
	nodes, emptyBatches := 0, 0
	for _, m := range gc.Models {
		nodes += m.Batches[gc.G-1]
		for g := 0; g < gc.G; g++ {
			if m.count(g) == 0 {
				emptyBatches++
			}
		}
		if !m.HasInputs && m.Batches[gc.G-1] > 0 {
			c.Tag("graph:no-stored-inputs")
		}
		for g := 0; g < gc.G; g++ {
			if n := m.count(g); n >= 31 {
				c.Tag("graph:catchment-sized-batch")
				if n%32 == 0 {
					c.Tag("graph:batch-multiple-of-32")
				}
			}
		}
	}
	if emptyBatches > 0 {
		c.Tag("graph:empty-batch")
	}
	fanIn := map[[3]int]int{}
	for _, l := range gc.Links {
		fanIn[[3]int{l.DestModel, gc.Models[l.DestModel].offset(l.DestGen) + l.DestIdx, l.DestVar}]++
	}
	for _, n := range fanIn {
		if n > 1 {
			c.Tag("graph:fan-in")
		}
		if n > 2 && gc.T >= 4096 {
			c.Tag("graph:long-series-fan-in>=3")
		}
	}
	c.Count("graph_nodes", float64(nodes))
	c.Count("graph_links", float64(len(gc.Links)))
	c.Count("empty_batches", float64(emptyBatches))
	if nodes == 0 {
		c.Trivial()
	}
	ref, err := referenceRun(gc, nil)
	if err == errNonFiniteInput {
		// a source model produced NaN/Inf that the links feed into another model (several kernels panic on that):
		// the generated graph is not a valid model, not a case
		c.Trivial()
		c.Count("graphs_skipped_nonfinite_link_series", 1)
		return
	}
	if err != nil {
		c.Inconclusive("reference executor failed: " + err.Error())
		return
	}
	// command line
	args := []string{}
	for _, f := range gc.Flags {
		if f == "FINALSTATES" {
			f = filepath.Join(dir, "final.h5")
		}
		args = append(args, f)
	}
	if len(gc.Split) > 0 {
		var parts []string
		for m, f := range gc.Split {
			parts = append(parts, m+"="+filepath.Join(dir, f+".h5"))
		}
		sort.Strings(parts)
		args = append(args, "-outputs", strings.Join(parts, ","))
		c.Tag("flags:split-outputs")
	}
	if flagValue(gc.Flags, "-final-states") != "" {
		c.Tag("flags:final-states")
	}
	args = append(args, inFile, outFile)
	bin := "/verif/bin/ow-sim"
	if race {
		bin = "/verif/bin/ow-sim-race"
	}
	tracePath, oplogPath := filepath.Join(dir, "trace.log"), filepath.Join(dir, "oplog.log")
	ctx, cancel := context.WithTimeout(context.Background(), 120*time.Second)
	defer cancel()
	cmd := exec.CommandContext(ctx, bin, args...)
	cmd.Env = append(os.Environ(), "OW_SHIM_OPLOG="+oplogPath)
	if gc.DelayMax > 0 {
		cmd.Env = append(cmd.Env, fmt.Sprintf("OW_SIM_DELAYS=%d:%d", gc.DelaySeed, gc.DelayMax), fmt.Sprintf("OW_SHIM_DELAYS=%d:%d", gc.DelaySeed, gc.DelayMax/10+1))
		if gc.DelayOnly != "" {
			cmd.Env = append(cmd.Env, "OW_SIM_DELAY_ONLY="+gc.DelayOnly)
		}
	}
	if race {
		cmd.Env = append(cmd.Env, "GORACE=halt_on_error=1 exitcode=66")
	} else {
		cmd.Env = append(cmd.Env, "OW_SIM_TRACE="+tracePath)
	}
	if gc.DelaySeed%5 == 0 {
		// the result may not depend on the process environment: a fifth of the executions run with the temporary
		// directory on another filesystem than the output file (tmpfs), from another working directory
		if st, err := os.Stat("/dev/shm"); err == nil && st.IsDir() {
			if td, err := os.MkdirTemp("/dev/shm", "verif-owsim-"); err == nil {
				defer os.RemoveAll(td)
				cmd.Env = append(cmd.Env, "TMPDIR="+td)
				cmd.Dir = td
				c.Tag("env:tmpdir-on-another-filesystem")
			}
		}
	}
	// stdout/stderr go to files: with pipes, Wait would also wait for the -writer child that
	// inherits stdout, and the harness could not see a parent that exits before its writer is done
	soF, _ := os.Create(filepath.Join(dir, "stdout.log"))
	seF, _ := os.Create(filepath.Join(dir, "stderr.log"))
	cmd.Stdout, cmd.Stderr = soF, seF
	cmd.Cancel = func() error { return cmd.Process.Signal(syscall.SIGQUIT) }
	cmd.WaitDelay = 3 * time.Second
	runErr := cmd.Run()
	soF.Close()
	seF.Close()
	var so, se bytes.Buffer
	if b, err := os.ReadFile(filepath.Join(dir, "stdout.log")); err == nil {
		so.Write(b)
	}
	if b, err := os.ReadFile(filepath.Join(dir, "stderr.log")); err == nil {
		se.Write(b)
	}
	c.Count("owsim_executions", 1)
	flagClass := fmt.Sprintf("flags%d/split%v", len(gc.Flags)/2, len(gc.Split) > 0)
	stderr := se.String()
	if ctx.Err() != nil {
		if isAllBlocked(stderr) {
			c.Violate("deadlock", "ow-sim", "ow-sim did not exit within 120 s and every goroutine is blocked:\n"+headStr(stderr, 1500))
		} else {
			c.Inconclusive("ow-sim watchdog expired (not every goroutine blocked)")
		}
		return
	}
	if strings.Contains(stderr, "WARNING: DATA RACE") {
		c.Violate("data-race", "ow-sim", headStr(stderr[strings.Index(stderr, "WARNING: DATA RACE"):], 2500))
		return
	}
	if runErr != nil {
		kind := "owsim-failed"
		if strings.Contains(stderr, "all goroutines are asleep") {
			kind = "deadlock"
		}
		c.Violate(kind, "ow-sim", fmt.Sprintf("ow-sim %v: %v\nstdout tail: %s\nstderr: %s", args, runErr, tailN(so.String(), 400), headStr(stderr, 1500)), "split", fmt.Sprint(len(gc.Split) > 0))
		return
	}
	// ---------------- outputs
	finalFile := outFile
	if v := flagValue(gc.Flags, "-final-states"); v != "" {
		finalFile = filepath.Join(dir, "final.h5")
	}
	outputsFor, noOutputsFor := flagValue(gc.Flags, "-outputs-for"), flagValue(gc.Flags, "-no-outputs-for")
	inputsFor, noInputsFor := flagValue(gc.Flags, "-inputs-for"), flagValue(gc.Flags, "-no-inputs-for")
	compared := 0
	// the order in which three or more series are added into one input is not fixed by the property: accept any single
	// order per input that reproduces what ow-sim wrote (schedule-independence of that order is C05's business)
	destOf := func(m *gModel) string {
		if f, ok := gc.Split[m.Name]; ok {
			return filepath.Join(dir, f+".h5")
		}
		return outFile
	}
	orders, orderUnobservable, nFitted := fitSumOrders(gc, func(mi int, what string) ([]float64, []int) {
		file := destOf(&gc.Models[mi])
		if what == "states" && flagValue(gc.Flags, "-final-states") != "" {
			file = finalFile
		}
		got, dims, err := rawDataset[float64](file, "/MODELS/"+gc.Models[mi].Name+"/"+what)
		if err != nil {
			return nil, nil
		}
		return got, dims
	})
	if nFitted > 0 {
		c.Tag("sum-order:not-links-order")
		c.Count("inputs_summed_in_another_order_than_links", float64(nFitted))
		if r2, err := referenceRun(gc, orders); err == nil {
			ref = r2
		}
	}
	for i := range gc.Models {
		m := &gc.Models[i]
		total := m.Batches[gc.G-1]
		rr := ref[m.Name]
		destFile := outFile
		split := false
		if f, ok := gc.Split[m.Name]; ok {
			destFile = filepath.Join(dir, f+".h5")
			split = true
		}
		writeOutputs := true
		if outputsFor != "" && inList(outputsFor, m.Name) {
			writeOutputs = true
		} else if noOutputsFor != "" && inList(noOutputsFor, m.Name) {
			writeOutputs = false
		}
		writeInputs := m.Batches[0] == 0
		if inputsFor != "" && inList(inputsFor, m.Name) {
			writeInputs = true
		} else if noInputsFor != "" && inList(noInputsFor, m.Name) {
			writeInputs = false
		}
		attrs := []string{"split", fmt.Sprint(split), "what", ""}
		check := func(file, what string, want []float64, wantDims []int, expected bool) {
			attrs[3] = what
			got, dims, err := rawDataset[float64](file, "/MODELS/"+m.Name+"/"+what)
			if !expected {
				if err == nil {
					c.Violate("unexpected-dataset", "ow-sim", fmt.Sprintf("dataset /MODELS/%s/%s was written although the command line (%v) excludes it", m.Name, what, gc.Flags), attrs...)
				}
				return
			}
			if err != nil {
				c.Violate("missing-dataset", "ow-sim", fmt.Sprintf("dataset /MODELS/%s/%s is missing from %s: %v (model has %d nodes; flags %v)", m.Name, what, filepath.Base(file), err, total, gc.Flags), attrs...)
				return
			}
			if !sameShape(dims, wantDims) {
				c.Violate("dataset-shape", "ow-sim", fmt.Sprintf("dataset /MODELS/%s/%s has shape %v, expected %v", m.Name, what, dims, wantDims), attrs...)
				return
			}
			if i := core.SameSlice(got, want); i >= 0 {
				loc := unflatten(wantDims, i)
				if orderUnobservable {
					c.Inconclusive(fmt.Sprintf("/MODELS/%s/%s differs from the /LINKS-order reference, but the order in which three or more series were added into some input cannot be observed (that model's inputs and outputs are not written, several such inputs on one node, or more than seven summands)", m.Name, what))
					return
				}
				c.Violate("dataset-values", "ow-sim", fmt.Sprintf("/MODELS/%s/%s%v = %v, the sequential reference gives %v (node row %d; generations end at rows %v)", m.Name, what, loc, got[i], want[i], loc[0], m.Batches), attrs...)
			}
			compared += len(want)
		}
		if total == 0 {
			continue
		}
		nst := len(m.States[0])
		check(destFile, "outputs", flatten3(rr.out), []int{total, m.nOut, gc.T}, writeOutputs)
		check(destFile, "inputs", flatten3(rr.inputs), []int{total, m.nIn, gc.T}, writeInputs)
		stFile := finalFile
		if split {
			stFile = destFile
			if flagValue(gc.Flags, "-final-states") != "" {
				stFile = finalFile
			}
		}
		if race && split {
			continue // final states of split models: C07's known finding, not a scheduling matter
		}
		check(stFile, "states", flatten2(rr.states), []int{total, nst}, true)
	}
	c.Count("output_values_compared", float64(compared))
	// ---------------- op log: every (dataset, generation block) of the output files written exactly once
	if b, err := os.ReadFile(oplogPath); err == nil {
		writes := map[string]int{}
		nops := 0
		for _, ln := range strings.Split(string(b), "\n") {
			f := strings.Fields(ln)
			nops++
			if len(f) >= 5 && f[1] == "write" && strings.HasPrefix(f[3], "/MODELS/") && f[2] != inFile {
				writes[f[2]+" "+f[3]+" "+f[4]]++
			}
		}
		c.Count("library_ops_logged", float64(nops))
		for k, n := range writes {
			if n != 1 {
				c.Violate("block-written-twice", "ow-sim", fmt.Sprintf("%s was written %d times", k, n))
			}
		}
		// expected number of blocks: per model, per non-empty generation, per written dataset
		c.Count("generation_blocks_written", float64(len(writes)))
	}
	// ---------------- trace: writer protocol ordering
	if !race {
		checkOwsimTrace(c, gc, tracePath)
	}
	// ---------------- C05: a second execution under another schedule must write bit-identical files
	if race && len(c.Res.Violations) == 0 {
		args2 := make([]string, len(args))
		for i, a := range args {
			if a != inFile {
				a = strings.ReplaceAll(a, ".h5", "-b.h5")
			}
			args2[i] = a
		}
		ctx2, cancel2 := context.WithTimeout(context.Background(), 120*time.Second)
		defer cancel2()
		cmd2 := exec.CommandContext(ctx2, bin, args2...)
		procs := "1"
		if c.R.Bool(0.5) {
			procs = "3"
		}
		cmd2.Env = append(os.Environ(), "GOMAXPROCS="+procs, "GORACE=halt_on_error=1 exitcode=66",
			fmt.Sprintf("OW_SIM_DELAYS=%d:%d", gc.DelaySeed+7, 2000), fmt.Sprintf("OW_SHIM_DELAYS=%d:%d", gc.DelaySeed+7, 200))
		so2, _ := os.Create(filepath.Join(dir, "stdout2.log"))
		se2, _ := os.Create(filepath.Join(dir, "stderr2.log"))
		cmd2.Stdout, cmd2.Stderr = so2, se2
		cmd2.Cancel = func() error { return cmd2.Process.Signal(syscall.SIGQUIT) }
		cmd2.WaitDelay = 3 * time.Second
		err2 := cmd2.Run()
		so2.Close()
		se2.Close()
		c.Count("owsim_executions", 1)
		if ctx2.Err() != nil {
			c.Inconclusive("second ow-sim execution: watchdog expired")
			return
		}
		if b, _ := os.ReadFile(filepath.Join(dir, "stderr2.log")); strings.Contains(string(b), "WARNING: DATA RACE") {
			c.Violate("data-race", "ow-sim", headStr(string(b)[strings.Index(string(b), "WARNING: DATA RACE"):], 2500))
			return
		}
		if err2 != nil {
			c.Violate("owsim-failed", "ow-sim", fmt.Sprintf("second execution (GOMAXPROCS=%s) of %v failed: %v", procs, args2, err2))
			return
		}
		files, _ := filepath.Glob(filepath.Join(dir, "*-b.h5"))
		pairs := 0
		for _, fb := range files {
			fa := strings.TrimSuffix(fb, "-b.h5") + ".h5"
			ta, ea := hdf5.LoadTree(fa)
			tb, eb := hdf5.LoadTree(fb)
			if ea != nil || eb != nil {
				c.Violate("schedule-dependent-output", "ow-sim", fmt.Sprintf("%s / %s: one of the two executions did not leave a readable file (%v / %v)", filepath.Base(fa), filepath.Base(fb), ea, eb))
				continue
			}
			if d := diffNodes("", ta.Root, tb.Root); d != "" {
				c.Violate("schedule-dependent-output", "ow-sim", fmt.Sprintf("two executions of the same graph (default GOMAXPROCS vs GOMAXPROCS=%s, other delay seed) wrote different files %s: %s", procs, filepath.Base(fa), d))
			}
			pairs++
		}
		c.Count("output_files_compared_between_two_schedules", float64(pairs))
		c.Tag("owsim:two-schedules-compared")
	}
	c.Class(fmt.Sprintf("G%d/M%d/L%d/%s/d%d", gc.G, len(gc.Models), minInt(len(gc.Links), 3), flagClass, gc.DelayMax))
}

type trEv struct {
	name string
	gen  int
}

func checkOwsimTrace(c *core.Ctx, gc *graphCase, path string) {
	b, err := os.ReadFile(path)
	if err != nil {
		c.Inconclusive("no hook trace was written (ow-sim built without the verif tag?)")
		return
	}
	var evs []trEv
	for _, ln := range strings.Split(string(b), "\n") {
		f := strings.Fields(ln)
		if len(f) != 3 {
			continue
		}
		g, _ := strconv.Atoi(f[2])
		evs = append(evs, trEv{f[1], g})
	}
	c.Tag("trace:checked")
	c.Count("trace_events_checked", float64(len(evs)))
	pos := func(name string, g int) int {
		for i, e := range evs {
			if e.name == name && e.gen == g {
				return i
			}
		}
		return -1
	}
	count := func(name string, g int) int {
		n := 0
		for _, e := range evs {
			if e.name == name && e.gen == g {
				n++
			}
		}
		return n
	}
	// every generation is written exactly once, in generation order, before main exits
	exit := pos("main-exit", gc.G)
	lastWrite := -1
	for g := 0; g < gc.G; g++ {
		if n := count("write-begin", g); n != 1 {
			c.Violate("trace-generation-write-count", "ow-sim", fmt.Sprintf("generation %d was written %d times (hook trace)", g, n))
			continue
		}
		we := pos("write-end", g)
		if we < 0 || (exit >= 0 && we > exit) {
			c.Violate("trace-exit-before-write", "ow-sim", fmt.Sprintf("main left the wait loop before generation %d finished writing", g))
		}
		wb := pos("write-begin", g)
		if wb < lastWrite {
			c.Violate("trace-write-order", "ow-sim", fmt.Sprintf("generation %d was written before generation %d finished", g, g-1))
		}
		lastWrite = we
		if wb < pos("run-end", g) {
			c.Violate("trace-write-before-run", "ow-sim", fmt.Sprintf("generation %d was written before it finished running", g))
		}
	}
	// no generation is discarded before it has been written and its outgoing links applied
	for i, e := range evs {
		if e.name != "purge" {
			continue
		}
		g := e.gen
		we, le := pos("write-end", g), pos("links-end", g)
		if we < 0 || we > i {
			c.Violate("trace-purge-before-write", "ow-sim", fmt.Sprintf("generation %d was purged before it was written", g))
		}
		if le < 0 || le > i {
			c.Violate("trace-purge-before-links", "ow-sim", fmt.Sprintf("generation %d was purged before its outgoing links were applied", g))
		}
		// nothing re-initialises (reads) generation g after its purge
		for _, e2 := range evs[i+1:] {
			if e2.name == "generation-init" && e2.gen == g {
				c.Violate("trace-read-after-purge", "ow-sim", fmt.Sprintf("generation %d was initialised again after it had been purged", g))
				break
			}
		}
	}
	// interleaving identity and writer lag
	var sig []string
	behind := false
	for i, e := range evs {
		switch e.name {
		case "writer-spawn", "token-recv", "purge", "write-begin", "write-end", "token-sent", "links-begin", "links-end", "run-begin":
			sig = append(sig, fmt.Sprintf("%s%d", e.name[:2]+e.name[len(e.name)-1:], e.gen))
		}
		if e.name == "write-begin" {
			// writer behind: main already started running a later generation (>= g+2)
			for _, e2 := range evs[:i] {
				if e2.name == "run-begin" && e2.gen >= e.gen+2 {
					behind = true
				}
			}
		}
	}
	if behind {
		c.Tag("trace:writer-behind")
	}
	bounces := 0
	for i, e := range evs {
		if e.name == "token-recv" && i+1 < len(evs) {
			// a token received by a writer that is not the next one is bounced (purge follows, no write-begin of g+1 from this writer)
			_ = e
		}
	}
	recv := map[int]int{}
	for _, e := range evs {
		if e.name == "token-recv" {
			recv[e.gen]++
		}
	}
	for _, n := range recv {
		if n > 1 {
			bounces += n - 1
		}
	}
	c.Count("token_bounces_observed", float64(bounces))
	c.Tag("interleaving:" + fmt.Sprintf("%x", core.HashStr(strings.Join(sig, ","))&0xfffff))
}

func isAllBlocked(dump string) bool {
	hdrs := 0
	for _, ln := range strings.Split(dump, "\n") {
		if strings.HasPrefix(ln, "goroutine ") && strings.Contains(ln, "[") {
			hdrs++
			st := ln[strings.Index(ln, "[")+1:]
			if !(strings.HasPrefix(st, "chan ") || strings.HasPrefix(st, "select") || strings.HasPrefix(st, "semacquire") || strings.HasPrefix(st, "sync.") || strings.HasPrefix(st, "IO wait") || strings.HasPrefix(st, "syscall")) {
				return false
			}
		}
	}
	return hdrs > 0
}

func tailN(s string, n int) string {
	if len(s) > n {
		return s[len(s)-n:]
	}
	return s
}

// diffNodes reports the first difference between two shim trees (structure, shapes, raw bytes).
func diffNodes(path string, a, b *hdf5.Node) string {
	if a.IsGroup != b.IsGroup {
		return path + ": group in one file, dataset in the other"
	}
	if !a.IsGroup {
		if fmt.Sprint(a.Dims) != fmt.Sprint(b.Dims) {
			return fmt.Sprintf("%s: shapes %v vs %v", path, a.Dims, b.Dims)
		}
		if !bytes.Equal(a.Data, b.Data) {
			for i := range a.Data {
				if i >= len(b.Data) || a.Data[i] != b.Data[i] {
					return fmt.Sprintf("%s: contents differ at element %d", path, i/maxInt(1, a.ElemSize))
				}
			}
			return path + ": contents differ in length"
		}
		return ""
	}
	names := map[string][2]*hdf5.Node{}
	for _, ch := range a.Children {
		names[ch.Name] = [2]*hdf5.Node{ch, nil}
	}
	for _, ch := range b.Children {
		p := names[ch.Name]
		p[1] = ch
		names[ch.Name] = p
	}
	keys := make([]string, 0, len(names))
	for k := range names {
		keys = append(keys, k)
	}
	sort.Strings(keys)
	for _, k := range keys {
		p := names[k]
		if p[0] == nil || p[1] == nil {
			return path + "/" + k + ": present in one file only"
		}
		if d := diffNodes(path+"/"+k, p[0], p[1]); d != "" {
			return d
		}
	}
	return ""
}

func maxInt(a, b int) int {
	if a > b {
		return a
	}
	return b
}
