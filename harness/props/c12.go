package props

// C12 - constituent transport and trapping models conserve mass.

import (
	"fmt"
	"math"

	"verif/core"
)

var c12Models = []string{"LumpedConstituentRouting", "ConstituentDecay", "InstreamFineSediment", "InstreamCoarseSediment",
	"InstreamParticulateNutrient", "StorageParticulateTrapping", "StorageTrapAll", "StorageDissolvedDecay"}

const minimumVolume = 1e-2

func init() {
	core.Register(&core.Prop{
		ID:    "C12",
		Level: "exploration",
		Rule: "case = (model, parameters, load/flow/volume series incl. zero-flow and near-empty steps, zero or non-zero initial stored masses); the run is chained one step at a time so that stored masses are observed after every step; " +
			"every step is one evaluation of the mass balance / sign / finiteness monitors; distinct = distinct (model, branch tags); non-trivial = some mass entered",
		Assumptions: []string{
			"terms in the units each model documents: rates x timestep for loads, kg for trapped/deposited amounts; StorageTrapAll has no timestep parameter, so its identity is unit-agnostic (sum reported trapped = sum inflow series + initial stored mass)",
			"loss is permitted only on steps where outflow*dt + volume < MINIMUM_VOLUME (0.01 m3): then out + stored after <= in + stored before",
			"relative tolerance 1e-9 of the masses involved",
			"StorageDissolvedDecay is exercised with decay disabled (as the property states)",
		},
		Workloads: []core.Workload{
			{Name: "mass", Variant: "plain", N: core.Tiered(8*120, 8*8000), Run: c12Case},
		},
		RequireTags: func(string) []string {
			return []string{"InstreamFineSediment:lumped-branch", "InstreamFineSediment:flood", "InstreamFineSediment:deposition", "InstreamFineSediment:flood+deposition", "InstreamFineSediment:remobilisation",
				"InstreamParticulateNutrient:resuspension", "flush-step", "StorageParticulateTrapping:zero-working-volume"}
		},
	})
}

func c12Case(c *core.Ctx) {
	model := c12Models[c.Idx%len(c12Models)]
	desc := NewModel(model).Description()
	T := c.R.IntRange(10, 60)
	ps := GenPSet(model, c.R, genOpts{})
	get := func(n string) float64 { return ps[paramIndex(desc, n)][0] }
	if model == "StorageDissolvedDecay" {
		ps[paramIndex(desc, "doStorageDecay")][0] = 0
	}
	in := GenInputs(model, c.R, T, ps)
	iIn := func(n string) int { return indexOf(desc.Inputs, n) }
	// volumes incl. zero / near empty for the storage models too
	switch model {
	case "StorageParticulateTrapping":
		in[iIn("storage")] = volumeSeries(c.R, T, 1e6)
	case "StorageDissolvedDecay", "StorageTrapAll":
		in[iIn("storageVolume")] = volumeSeries(c.R, T, 1e6)
	}
	// initial stored masses
	var st0 []float64
	for range desc.States {
		if c.R.Bool(0.5) {
			st0 = append(st0, 0)
		} else {
			st0 = append(st0, c.R.LogRange(1e-3, 1e6))
		}
	}
	steadyRemob := false
	dt := 86400.0
	for _, n := range []string{"DeltaT", "durationInSeconds"} {
		if paramIndex(desc, n) >= 0 {
			dt = get(n)
		}
	}
	if model == "InstreamFineSediment" && c.R.Bool(0.4) {
		// joint regime: flooding AND channel deposition with room in the channel store
		set := func(n string, v float64) { ps[paramIndex(desc, n)][0] = v }
		bf := c.R.Range(0.5, 2)
		set("bankFullFlow", bf)
		set("fineSedSettVelocity", 1e-3)
		set("fineSedSettVelocityFlood", c.R.LogRange(1e-5, 1e-3))
		set("floodPlainArea", c.R.LogRange(1e4, 1e6))
		set("linkSlope", c.R.LogRange(1e-4, 1e-3))
		set("propBankHeightForFineDep", c.R.Range(0.5, 1))
		for t := 0; t < T; t++ {
			in[iIn("outflow")][t] = bf * c.R.Range(1.05, 4)
			in[iIn("upstreamMass")][t] = c.R.LogRange(1, 1e4)
			in[iIn("reachVolume")][t] = c.R.LogRange(1e3, 1e6)
		}
		st0[0], st0[1] = 0, 0
	}
	if model == "InstreamFineSediment" && get("bankFullFlow") > 0 && c.R.Bool(0.25) {
		// steady low flow that keeps picking sediment up from a small channel store until it is gone: the same
		// outflow and the same incoming load step after step while the store changes
		o := get("bankFullFlow") * c.R.Range(0.05, 0.9)
		v := pick(c.R, 0, 0, c.R.Range(0, 1e3))
		l := pick(c.R, 0, c.R.LogRange(1e-4, 1))
		for t := 0; t < T; t++ {
			in[iIn("outflow")][t], in[iIn("reachVolume")][t] = o, v
			in[iIn("upstreamMass")][t], in[iIn("lateralMass")][t], in[iIn("reachLocalMass")][t] = l, 0, 0
		}
		st0[0], st0[1] = c.R.LogRange(1, 1e5), 0
		steadyRemob = true
	}
	if model == "InstreamFineSediment" && get("bankFullFlow") > 0 && st0[0] != 0 {
		// channel store within its capacity
		maxStorage := get("propBankHeightForFineDep") * get("bankHeight") * get("linkWidth") * get("linkLength") * get("sedBulkDensity") * 1e3
		st0[0] = maxStorage * c.R.Range(0, 1)
	}
	run := &MRun{Model: model, N: 1, T: T, Sets: []PSet{ps}, Inputs: [][][]float64{in}, States: [][]float64{st0}}
	c.Begin(run)
	if c.R.Bool(0.1) {
		HostileHistory(c, model, run.Sets)
	}
	tags := map[string]bool{}
	tag := func(s string) {
		tags[s] = true
		c.Tag(model + ":" + s)
	}
	inv := func(t int, n string) float64 { return in[iIn(n)][t] }
	entered := 0.0
	st := [][]float64{append([]float64{}, st0...)}
	trapAllIn, trapAllOut := 0.0, 0.0
	negInputSeen := false
	runScale := 0.0
	if model == "StorageTrapAll" && len(st0) > 0 {
		trapAllIn = st0[0]
	}
	if steadyRemob {
		c.Tag("InstreamFineSediment:steady-remobilisation-scenario")
	}
	chained := make([][]float64, len(desc.Outputs))
	stepsDone := 0
	for t := 0; t < T; t++ {
		seg := &MRun{Model: model, N: 1, T: 1, Sets: run.Sets, Inputs: sliceT(run.Inputs, t, t+1), States: st}
		so, err := ExecuteFor(c, seg)
		if err != nil {
			c.Violate("prepare", model, err.Error())
			return
		}
		for j := range chained {
			chained[j] = append(chained[j], so.Out[0][j][0])
		}
		stepsDone = t + 1
		ov := func(n string) float64 {
			i := indexOf(desc.Outputs, n)
			if i < 0 {
				c.Violate("missing-output", model, n)
				return 0
			}
			return so.Out[0][i][0]
		}
		before, after := st[0], so.States[0]
		for j, v := range after {
			if !core.Finite(v) {
				c.Violate("state-nonfinite", model, fmt.Sprintf("t=%d: state %s=%v (inputs at this step: %v)", t, desc.States[j], v, stepInputs(in, t)), "state", desc.States[j])
				return
			}
		}
		for j, n := range desc.Outputs {
			if v := so.Out[0][j][0]; !core.Finite(v) {
				c.Violate("output-nonfinite", model, fmt.Sprintf("t=%d: output %s=%v (inputs at this step: %v)", t, n, v, stepInputs(in, t)), "output", n)
				return
			}
		}
		var massIn, massOut, stored0, stored1, vol float64
		var nonneg []struct {
			n string
			v float64
		}
		flushAllowed := false
		switch model {
		case "LumpedConstituentRouting":
			massIn = (inv(t, "inflowLoad") + inv(t, "lateralLoad") + get("pointInput")) * dt
			massOut = ov("outflowLoad") * dt
			stored0, stored1 = before[0], after[0]
			vol = inv(t, "outflow")*dt + inv(t, "storage")
			flushAllowed = vol < minimumVolume
		case "ConstituentDecay":
			massIn = (inv(t, "inflowLoad") + inv(t, "lateralLoad")) * dt
			massOut = ov("outflowLoad")*dt + ov("decayedLoad")*dt
			stored0, stored1 = before[0], after[0]
			vol = inv(t, "outflow")*dt + inv(t, "storage")
			flushAllowed = vol < minimumVolume
			if get("halfLife") > 0 {
				tag("decay")
			}
		case "InstreamFineSediment":
			massIn = (inv(t, "upstreamMass") + inv(t, "lateralMass") + inv(t, "reachLocalMass")) * dt
			dep := ov("loadToChannelDeposition")
			massOut = ov("loadDownstream")*dt + ov("loadToFloodplain")*dt
			stored0, stored1 = before[0]+before[1], after[0]+after[1]
			vol = inv(t, "outflow")*dt + inv(t, "reachVolume")
			flushAllowed = vol < minimumVolume
			if get("bankFullFlow") <= 1e-8 {
				tag("lumped-branch")
			} else {
				if !core.RelClose(after[0], before[0]+dep, 1e-9, 1e-9) {
					c.Violate("channel-store-bookkeeping", model, fmt.Sprintf("t=%d: channelStoreFine %v -> %v but reported net deposition %v", t, before[0], after[0], dep))
				}
				if inv(t, "outflow") >= get("bankFullFlow") && ov("loadToFloodplain") > 0 {
					tag("flood")
				}
				if dep > 0 && ov("loadToFloodplain") > 0 {
					tag("flood+deposition")
				}
				if dep > 0 {
					tag("deposition")
				} else if dep < 0 {
					tag("remobilisation")
					if -dep > before[0]*(1+1e-9)+1e-9 {
						c.Violate("remobilisation-exceeds-store", model, fmt.Sprintf("t=%d: remobilised %v from a channel store of %v", t, -dep, before[0]))
					}
				} else {
					tag("neither")
				}
			}
			nonneg = append(nonneg, struct {
				n string
				v float64
			}{"channelStoreFine", after[0]})
		case "InstreamCoarseSediment":
			massIn = (inv(t, "upstreamMass") + inv(t, "lateralMass") + inv(t, "reachLocalMass")) * dt
			massOut = ov("loadDownstream") * dt
			stored0, stored1 = before[0]+before[1], after[0]+after[1]
			vol = 1
		case "InstreamParticulateNutrient":
			massIn = (inv(t, "incomingMassUpstream")+inv(t, "incomingMassLateral"))*dt + ov("loadFromStreambank")*dt
			massOut = ov("loadDownstream")*dt + ov("loadToFloodplain")*dt
			stored0, stored1 = before[0]+before[1], after[0]+after[1]
			vol = inv(t, "outflow")*dt + inv(t, "reachVolume")
			flushAllowed = vol < minimumVolume
			if inv(t, "channelDepositionFraction") < 0 {
				tag("resuspension")
			} else {
				tag("deposition")
			}
			nonneg = append(nonneg, struct {
				n string
				v float64
			}{"instreamStoredMass", after[0]})
		case "StorageParticulateTrapping":
			massIn = inv(t, "inflowLoad") * dt
			massOut = ov("outflowLoad")*dt + ov("trappedMass")
			stored0, stored1 = before[0], after[0]
			vol = inv(t, "outflow")*dt + inv(t, "storage")
			flushAllowed = vol < minimumVolume
			if vol == 0 {
				tag("zero-working-volume")
			}
			if inv(t, "inflow") > 0 && get("reservoirLength") > 0 {
				tag("trapping")
			}
		case "StorageDissolvedDecay":
			massIn = inv(t, "inflowMass") * dt
			massOut = ov("outflowMass") * dt
			stored0, stored1 = before[0], after[0]
			vol = inv(t, "outflow")*dt + inv(t, "storageVolume")
			flushAllowed = vol < minimumVolume
		case "StorageTrapAll":
			trapAllIn += inv(t, "inflowMass")
			trapAllOut += ov("trappedMass")
			if ov("outflowMass") != 0 {
				c.Violate("trapall-outflow", model, fmt.Sprintf("t=%d: outflowMass=%v (everything should be trapped)", t, ov("outflowMass")))
			}
			if after[0] != 0 {
				c.Violate("trapall-stored", model, fmt.Sprintf("t=%d: storedMass=%v after the step (everything should be reported trapped)", t, after[0]))
			}
			st = so.States
			c.Count("steps/"+model, 1)
			continue
		}
		entered += massIn
		for j, n := range desc.Outputs {
			if (n == "loadDownstream" || n == "outflowLoad" || n == "outflowMass") && so.Out[0][j][0] < -1e-9 {
				c.Violate("negative-downstream-load", model, fmt.Sprintf("t=%d: %s=%v", t, n, so.Out[0][j][0]))
			}
		}
		nonneg = append(nonneg, struct {
			n string
			v float64
		}{"stored mass", stored1})
		if model != "InstreamFineSediment" && model != "InstreamParticulateNutrient" && model != "InstreamCoarseSediment" {
			nonneg = nonneg[len(nonneg)-1:]
		}
		scale := math.Abs(massIn) + math.Abs(stored0) + math.Abs(massOut) + math.Abs(stored1)
		for _, v := range stepInputs(in, t) {
			if v < 0 {
				negInputSeen = true // the sign clause is stated for non-negative inputs only
			}
		}
		for _, x := range nonneg {
			if negInputSeen {
				break
			}
			// (rounding is that of the masses that have passed through the store so far, not of this step's: a store that
			// 4e6 kg went through the step before comes out as -2e-9 kg after a flush)
			if x.v < -1e-9*math.Max(1, math.Max(scale, runScale)) {
				c.Violate("negative-stored-mass", model, fmt.Sprintf("t=%d: %s=%v", t, x.n, x.v), "what", x.n)
			}
		}
		res := (massIn + stored0) - (massOut + stored1)
		if scale > runScale {
			runScale = scale
		}
		// 1e-9 of this step's masses, plus rounding noise inherited from earlier, larger masses of the run
		tol := 1e-9*scale + 1e-13*runScale + 1e-12
		c.Count("steps/"+model, 1)
		if flushAllowed {
			tag("flush")
			c.Tag("flush-step")
			if res < -tol {
				c.Violate("mass-created-on-flush", model, fmt.Sprintf("t=%d (water volume %v < MINIMUM_VOLUME): out+stored after = %v exceeds in+stored before = %v", t, vol, massOut+stored1, massIn+stored0))
			}
		} else {
			if scale > 0 {
				c.Max("worst_rel_residual/"+model, math.Abs(res)/scale)
			}
			if math.Abs(res) > tol {
				branch := ""
				if model == "InstreamFineSediment" {
					branch = map[bool]string{true: "lumped", false: "full"}[get("bankFullFlow") <= 1e-8]
				}
				c.Violate("mass-balance", model, fmt.Sprintf("t=%d: in %v + stored before %v = %v but out (downstream+deposited/trapped/decayed/floodplain) %v + stored after %v = %v (residual %v, water volume %v); inputs at this step %v",
					t, massIn, stored0, massIn+stored0, massOut, stored1, massOut+stored1, res, vol, stepInputs(in, t)), "branch", branch)
			}
		}
		st = so.States
		if len(c.Res.Violations) >= 3 {
			break
		}
	}
	// The balance above was observed one step per call (to see the stores after every step). The same period simulated
	// in ONE call must report the same loads and end with the same stores, otherwise the mass that the single call sends
	// downstream / deposits / keeps differs from the balanced one.
	if stepsDone == T && len(c.Res.Violations) == 0 && c.R.Bool(0.25) {
		// an empty period keeps what is stored (nothing enters, nothing leaves)
		CheckEmptyRun(c, model, run.Sets, st)
	}
	if stepsDone == T && len(c.Res.Violations) == 0 {
		whole := &MRun{Model: model, N: 1, T: T, Sets: run.Sets, Inputs: run.Inputs, States: [][]float64{append([]float64{}, st0...)}}
		if wo, err := ExecuteFor(c, whole); err == nil {
			c.Count("whole_run_comparisons", 1)
		cmp:
			for j, n := range desc.Outputs {
				for t := 0; t < T; t++ {
					a, b := wo.Out[0][j][t], chained[j][t]
					if !core.RelClose(a, b, 1e-9, 1e-9*runScale/dt+1e-12) {
						c.Violate("whole-run-differs-from-stepwise", model, fmt.Sprintf("output %s at t=%d: %v when the %d steps are simulated in one call, %v step by step (where the mass balance closes at every step)", n, t, a, T, b))
						break cmp
					}
				}
			}
			for j := range st[0] {
				if a, b := wo.States[0][j], st[0][j]; !core.RelClose(a, b, 1e-9, 1e-9*runScale+1e-12) && len(c.Res.Violations) == 0 {
					c.Violate("whole-run-differs-from-stepwise", model, fmt.Sprintf("final state %d: %v after one call over %d steps, %v step by step", j, a, T, b))
				}
			}
		}
	}
	if model == "StorageTrapAll" {
		if !core.RelClose(trapAllIn, trapAllOut, 1e-12, 1e-300) {
			c.Violate("trapall-identity", model, fmt.Sprintf("sum of the inflow series + initial stored mass = %v but sum reported trapped = %v", trapAllIn, trapAllOut))
		}
		entered = trapAllIn
	}
	if entered == 0 {
		c.Trivial()
	}
	ts := ""
	for _, k := range []string{"lumped-branch", "flood", "flood+deposition", "deposition", "remobilisation", "resuspension", "flush", "decay", "zero-working-volume", "trapping"} {
		if tags[k] {
			ts += k + ","
		}
	}
	c.Class(model + "/" + ts)
}

func stepInputs(in [][]float64, t int) []float64 {
	r := make([]float64, len(in))
	for i := range in {
		r[i] = in[i][t]
	}
	return r
}
