// vcheck: driver and worker of the runtime-monitoring harness.
//
//	vcheck run -prop C04 -tier quick          driver: supervises worker processes
//	vcheck worker -prop C04 -wl main ...       worker: executes cases, one JSON line per event
//	vcheck replay -file replays/C04-xx.json    re-executes exactly one recorded case
//	vcheck variants -prop C04                  prints the build variants the property needs
package main

import (
	"bufio"
	"encoding/json"
	"flag"
	"fmt"
	"os"
	"os/exec"
	"path/filepath"
	"regexp"
	"runtime"
	"sort"
	"strings"
	"sync"
	"syscall"
	"time"

	"verif/core"
	_ "verif/props"
)

const verifDir = "/verif"

func main() {
	if len(os.Args) < 2 {
		fmt.Fprintln(os.Stderr, "usage: vcheck run|worker|replay|variants ...")
		os.Exit(2)
	}
	switch os.Args[1] {
	case "worker":
		workerMain(os.Args[2:])
	case "run":
		os.Exit(runMain(os.Args[2:]))
	case "replay":
		os.Exit(replayMain(os.Args[2:]))
	case "variants":
		fs := flag.NewFlagSet("variants", flag.ExitOnError)
		prop := fs.String("prop", "", "")
		fs.Parse(os.Args[2:])
		p := core.Registry[*prop]
		if p == nil {
			fmt.Fprintln(os.Stderr, "unknown property", *prop)
			os.Exit(2)
		}
		seen := map[string]bool{}
		for _, w := range p.Workloads {
			if !seen[w.Variant] {
				seen[w.Variant] = true
				fmt.Println(w.Variant)
			}
		}
	case "needs":
		fs := flag.NewFlagSet("needs", flag.ExitOnError)
		prop := fs.String("prop", "", "")
		fs.Parse(os.Args[2:])
		if p := core.Registry[*prop]; p != nil {
			for _, n := range p.Needs {
				fmt.Println(n)
			}
		}
	case "describe":
		ids := []string{}
		for id := range core.Registry {
			ids = append(ids, id)
		}
		sort.Strings(ids)
		fmt.Println("| property | workload | build | cases quick / thorough |")
		fmt.Println("|---|---|---|---|")
		for _, id := range ids {
			for _, w := range core.Registry[id].Workloads {
				fmt.Printf("| %s | %s | %s | %d / %d |\n", id, w.Name, w.Variant, w.N("quick"), w.N("thorough"))
			}
		}
	case "list":
		ids := []string{}
		for id := range core.Registry {
			ids = append(ids, id)
		}
		sort.Strings(ids)
		for _, id := range ids {
			fmt.Println(id)
		}
	default:
		fmt.Fprintln(os.Stderr, "unknown subcommand", os.Args[1])
		os.Exit(2)
	}
}

// ---------------------------------------------------------------------------
// worker

func workerMain(args []string) {
	fs := flag.NewFlagSet("worker", flag.ExitOnError)
	prop := fs.String("prop", "", "")
	wl := fs.String("wl", "", "")
	seed := fs.Uint64("seed", 1, "")
	tier := fs.String("tier", "quick", "")
	variant := fs.String("variant", "plain", "")
	from := fs.Int("from", 0, "")
	to := fs.Int("to", 0, "")
	fs.Parse(args)
	p := core.Registry[*prop]
	if p == nil {
		fmt.Fprintln(os.Stderr, "unknown property", *prop)
		os.Exit(2)
	}
	var w *core.Workload
	for i := range p.Workloads {
		if p.Workloads[i].Name == *wl {
			w = &p.Workloads[i]
		}
	}
	if w == nil {
		fmt.Fprintln(os.Stderr, "unknown workload", *wl)
		os.Exit(2)
	}
	out := bufio.NewWriter(os.Stdout)
	enc := json.NewEncoder(syncWriter{out})
	for idx := *from; idx < *to; idx++ {
		c := core.NewCtx(*prop, *wl, *seed, *tier, *variant, idx, enc)
		c.Guard("panic", "", func() { w.Run(c) })
		c.Finish()
	}
	enc.Encode(core.Line{T: "done"})
	out.Flush()
}

// syncWriter flushes after every line so the driver sees "begin" before the case runs.
type syncWriter struct{ w *bufio.Writer }

func (s syncWriter) Write(b []byte) (int, error) {
	n, err := s.w.Write(b)
	s.w.Flush()
	return n, err
}

// ---------------------------------------------------------------------------
// known findings

type Finding struct {
	ID          string            `json:"id"`
	Status      string            `json:"status"` // known | fixed
	Property    string            `json:"property"`
	Match       map[string]string `json:"match,omitempty"`
	DetailRegex string            `json:"detail_regex,omitempty"`
	What        string            `json:"what"`
	Line        string            `json:"line,omitempty"`
	Commit      string            `json:"commit,omitempty"`
	Witness     json.RawMessage   `json:"witness,omitempty"`
	re          *regexp.Regexp
}

type findingsFile struct {
	Findings []*Finding `json:"findings"`
}

func loadFindings() []*Finding {
	b, err := os.ReadFile(filepath.Join(verifDir, "known_findings.json"))
	if err != nil {
		return nil
	}
	var ff findingsFile
	if err := json.Unmarshal(b, &ff); err != nil {
		fmt.Fprintln(os.Stderr, "HARNESS-ERROR: known_findings.json does not parse:", err)
		os.Exit(2)
	}
	for _, f := range ff.Findings {
		if f.DetailRegex != "" {
			f.re = regexp.MustCompile(f.DetailRegex)
		}
	}
	return ff.Findings
}

func (f *Finding) matches(prop string, v core.Violation) bool {
	if f.Status != "known" || f.Property != prop {
		return false
	}
	if len(f.Match) == 0 && f.re == nil {
		return false // a finding must name what fails
	}
	for k, want := range f.Match {
		var got string
		switch k {
		case "kind":
			got = v.Kind
		case "model":
			got = v.Model
		default:
			got = v.Attrs[k]
		}
		if got != want {
			return false
		}
	}
	if f.re != nil && !f.re.MatchString(v.Detail) {
		return false
	}
	return true
}

// ---------------------------------------------------------------------------
// driver

type caseRecord struct {
	wl      string
	variant string
	idx     int
	desc    json.RawMessage
	res     *core.Result
	crash   string
}

type job struct {
	from, to int
}

type runState struct {
	mu        sync.Mutex
	records   []caseRecord
	samples   []json.RawMessage
	evals     int
	classes   map[string]bool
	agg       core.Aggregate
	inconcl   []string
	crashes   int
	workerRun int
}

func binFor(variant string) string {
	self, _ := os.Executable()
	dir := filepath.Dir(self)
	base := filepath.Base(self)
	// strip variant suffix of self
	for _, s := range []string{"-race", "-asan"} {
		base = strings.TrimSuffix(base, s)
	}
	if variant == "plain" || variant == "" {
		return filepath.Join(dir, base)
	}
	return filepath.Join(dir, base+"-"+variant)
}

func runMain(args []string) int {
	fs := flag.NewFlagSet("run", flag.ExitOnError)
	propID := fs.String("prop", "", "")
	tier := fs.String("tier", "quick", "")
	onlyWL := fs.String("wl", "", "run only this workload (debug)")
	noEvidence := fs.Bool("no-evidence", false, "")
	fs.Parse(args)
	if t := os.Getenv("VERIF_TIER"); t != "" && *tier == "" {
		*tier = t
	}
	p := core.Registry[*propID]
	if p == nil {
		fmt.Println("HARNESS-ERROR: unknown property", *propID)
		return 2
	}
	seed := uint64(core.EnvInt("VERIF_SEED", 1))
	start := time.Now()
	findings := loadFindings()
	st := &runState{classes: map[string]bool{}}
	st.agg = core.Aggregate{Count: map[string]float64{}, Max: map[string]float64{}, Min: map[string]float64{}, Tags: map[string]int{}}
	workDir := filepath.Join(verifDir, "work", *propID)
	os.MkdirAll(workDir, 0755)

	for wi := range p.Workloads {
		w := &p.Workloads[wi]
		if *onlyWL != "" && w.Name != *onlyWL {
			continue
		}
		n := w.N(*tier)
		if n <= 0 {
			continue
		}
		procs := runtime.NumCPU()
		if w.MaxProcs > 0 && w.MaxProcs < procs {
			procs = w.MaxProcs
		}
		if procs > n {
			procs = n
		}
		chunk := n / (procs * 4)
		if chunk < 1 {
			chunk = 1
		}
		jobs := make(chan job, n)
		for a := 0; a < n; a += chunk {
			b := a + chunk
			if b > n {
				b = n
			}
			jobs <- job{a, b}
		}
		close(jobs)
		var wg sync.WaitGroup
		for k := 0; k < procs; k++ {
			wg.Add(1)
			go func(k int) {
				defer wg.Done()
				for j := range jobs {
					superviseRange(p, w, seed, *tier, j.from, j.to, st, workDir, k)
				}
			}(k)
		}
		wg.Wait()
	}

	// ------------------------------------------------------------------ verdicts
	type viol struct {
		rec caseRecord
		v   core.Violation
	}
	var unlisted []viol
	knownSeen := map[string]*Finding{}
	knownCount := map[string]int{}
	totalViol := 0
	for _, r := range st.records {
		var vs []core.Violation
		if r.res != nil {
			vs = r.res.Violations
		}
		if r.crash != "" {
			model := ""
			var m map[string]interface{}
			if json.Unmarshal(r.desc, &m) == nil {
				if s, ok := m["model"].(string); ok {
					model = s
				}
			}
			kind := "crash"
			switch {
			case strings.Contains(r.crash, "WARNING: DATA RACE"):
				kind = "data-race"
			case strings.Contains(r.crash, "AddressSanitizer"):
				kind = "asan-report"
			case strings.Contains(r.crash, "deadlock"):
				kind = "deadlock"
			}
			vs = append(vs, core.Violation{Kind: kind, Model: model, Detail: r.crash})
		}
		for _, v := range vs {
			totalViol++
			matched := false
			for _, f := range findings {
				if f.matches(p.ID, v) {
					knownSeen[f.ID] = f
					knownCount[f.ID]++
					matched = true
					break
				}
			}
			if !matched {
				unlisted = append(unlisted, viol{r, v})
			}
		}
	}

	// observed-nothing checks
	harnessErr := ""
	if st.evals == 0 {
		harnessErr = "no case was evaluated"
	}
	if p.RequireTags != nil {
		for _, t := range p.RequireTags(*tier) {
			if st.agg.Tags[t] == 0 {
				harnessErr += fmt.Sprintf(" required observation %q never made;", t)
			}
		}
	}

	notObserved := []string{}
	if p.ExpectTags != nil {
		for _, t := range p.ExpectTags(*tier) {
			if st.agg.Tags[t] == 0 {
				notObserved = append(notObserved, t)
			}
		}
	}
	notObservedGlobal = notObserved

	ids := []string{}
	for id := range knownSeen {
		ids = append(ids, id)
	}
	sort.Strings(ids)
	for _, id := range ids {
		fmt.Printf("KNOWN-FINDING: property=%s %s [%s, %d case(s) this run]\n", p.ID, knownSeen[id].What, id, knownCount[id])
	}

	// replay files + VIOLATION lines, de-duplicated by (kind, model)
	os.MkdirAll(filepath.Join(verifDir, "replays"), 0755)
	seenVK := map[string]int{}
	for _, u := range unlisted {
		key := u.v.Kind + "|" + u.v.Model
		seenVK[key]++
		if seenVK[key] > 2 || len(seenVK) > 25 {
			continue
		}
		h := core.Mix(core.HashStr(fmt.Sprintf("%s/%s/%d/%s/%d/%s", p.ID, u.rec.wl, seed, *tier, u.rec.idx, key)))
		path := filepath.Join(verifDir, "replays", fmt.Sprintf("%s-%012x.json", p.ID, h&0xffffffffffff))
		rep := map[string]interface{}{
			"property": p.ID, "workload": u.rec.wl, "variant": u.rec.variant, "seed": seed, "tier": *tier,
			"idx": u.rec.idx, "case": u.rec.desc, "violation": u.v,
		}
		b, _ := json.MarshalIndent(rep, "", " ")
		os.WriteFile(path, b, 0644)
		fmt.Printf("VIOLATION property=%s replay=%s\n", p.ID, path)
		d := u.v.Detail
		if len(d) > 600 {
			d = d[:600] + "..."
		}
		fmt.Printf("  kind=%s model=%s workload=%s idx=%d: %s\n", u.v.Kind, u.v.Model, u.rec.wl, u.rec.idx, strings.ReplaceAll(d, "\n", "\n    "))
	}
	if len(unlisted) > 0 {
		kinds := []string{}
		for k, n := range seenVK {
			kinds = append(kinds, fmt.Sprintf("%s x%d", k, n))
		}
		sort.Strings(kinds)
		fmt.Printf("violations not listed as known findings: %d in %d (kind|model) groups: %s\n", len(unlisted), len(seenVK), strings.Join(kinds, "; "))
	}

	wall := time.Since(start).Seconds()
	if !*noEvidence && os.Getenv("VERIF_NO_EVIDENCE") == "" {
		writeEvidence(p, *tier, seed, st, wall, len(unlisted), totalViol, knownCount, harnessErr)
	}
	fmt.Printf("%s tier=%s seed=%d: %d cases evaluated, %d distinct non-trivial classes, %d violation(s) (%d unlisted), %d known-finding id(s), %d inconclusive, %d worker crash(es), %.1fs\n",
		p.ID, *tier, seed, st.evals, len(st.classes), totalViol, len(unlisted), len(knownSeen), len(st.inconcl), st.crashes, wall)
	for i, s := range st.inconcl {
		if i < 5 {
			fmt.Println("  inconclusive:", s)
		}
	}
	if len(notObserved) > 0 {
		fmt.Printf("  NOT-OBSERVED (implementation-dependent mechanisms; the clauses monitored through them were not exercised this run): %s\n", strings.Join(notObserved, ", "))
	}
	if len(unlisted) > 0 {
		return 1
	}
	if harnessErr != "" {
		fmt.Println("HARNESS-ERROR:", harnessErr)
		return 2
	}
	return 0
}

func superviseRange(p *core.Prop, w *core.Workload, seed uint64, tier string, from, to int, st *runState, workDir string, slot int) {
	timeout := time.Duration(w.TimeoutS) * time.Second
	if timeout == 0 {
		timeout = 180 * time.Second
	}
	cur := from
	for cur < to {
		st.mu.Lock()
		st.workerRun++
		runNo := st.workerRun
		st.mu.Unlock()
		errPath := filepath.Join(workDir, fmt.Sprintf("stderr-%s-%d.log", w.Name, runNo))
		errFile, _ := os.Create(errPath)
		cmd := exec.Command(binFor(w.Variant), "worker", "-prop", p.ID, "-wl", w.Name,
			"-seed", fmt.Sprint(seed), "-tier", tier, "-variant", w.Variant,
			"-from", fmt.Sprint(cur), "-to", fmt.Sprint(to))
		cmd.Env = append(os.Environ(), w.Env...)
		cmd.Env = append(cmd.Env, "VERIF_WORKDIR="+workDir, fmt.Sprintf("VERIF_SLOT=%d", slot))
		cmd.Stderr = errFile
		stdout, _ := cmd.StdoutPipe()
		if err := cmd.Start(); err != nil {
			st.mu.Lock()
			st.inconcl = append(st.inconcl, "cannot start worker: "+err.Error())
			st.mu.Unlock()
			errFile.Close()
			return
		}
		lines := make(chan core.Line, 64)
		go func() {
			sc := bufio.NewScanner(stdout)
			sc.Buffer(make([]byte, 1<<20), 64<<20)
			for sc.Scan() {
				var l core.Line
				if json.Unmarshal(sc.Bytes(), &l) == nil && l.T != "" {
					lines <- l
				}
			}
			close(lines)
		}()
		inflight := -1
		var inflightDesc json.RawMessage
		done := false
		timedOut := false
		timer := time.NewTimer(timeout)
	loop:
		for {
			select {
			case l, ok := <-lines:
				if !ok {
					break loop
				}
				if !timer.Stop() {
					select {
					case <-timer.C:
					default:
					}
				}
				timer.Reset(timeout)
				switch l.T {
				case "begin":
					inflight = l.Idx
					inflightDesc = l.Case
				case "end":
					st.mu.Lock()
					st.evals++
					if len(st.samples) < 3 && l.Res != nil && !l.Res.Trivial {
						st.samples = append(st.samples, inflightDesc)
					}
					st.absorb(w, l.Idx, inflightDesc, l.Res)
					st.mu.Unlock()
					cur = l.Idx + 1
					inflight = -1
				case "done":
					done = true
				}
			case <-timer.C:
				timedOut = true
				cmd.Process.Signal(syscall.SIGQUIT)
				time.Sleep(500 * time.Millisecond)
				cmd.Process.Kill()
				break loop
			}
		}
		timer.Stop()
		cmd.Wait()
		errFile.Close()
		if done && inflight < 0 {
			os.Remove(errPath)
			return
		}
		// the worker died (or hung) with a case in flight
		tail := tailOf(errPath, 6000)
		st.mu.Lock()
		if timedOut {
			msg := fmt.Sprintf("%s/%s idx=%d: watchdog (%v) expired", p.ID, w.Name, inflight, timeout)
			if isDeadlockDump(tail) {
				st.records = append(st.records, caseRecord{wl: w.Name, variant: w.Variant, idx: inflight, desc: inflightDesc,
					crash: "deadlock: every goroutine blocked at watchdog expiry\n" + tail})
				st.evals++
			} else {
				st.inconcl = append(st.inconcl, msg)
			}
		} else if inflight >= 0 {
			st.crashes++
			st.evals++
			st.records = append(st.records, caseRecord{wl: w.Name, variant: w.Variant, idx: inflight, desc: inflightDesc, crash: crashSummary(tail)})
		} else {
			// died before logging the next case: attribute the crash to that case (index cur)
			st.crashes++
			st.evals++
			inflight = cur
			st.records = append(st.records, caseRecord{wl: w.Name, variant: w.Variant, idx: cur, desc: json.RawMessage("null"),
				crash: "worker died before logging case " + fmt.Sprint(cur) + " (crash while generating it):\n" + crashSummary(tail)})
		}
		st.mu.Unlock()
		cur = inflight + 1
	}
}

func (st *runState) absorb(w *core.Workload, idx int, desc json.RawMessage, r *core.Result) {
	if r == nil {
		return
	}
	if r.Class != "" && !r.Trivial {
		st.classes[r.Class] = true
	}
	for k, v := range r.Count {
		st.agg.Count[k] += v
	}
	for k, v := range r.Max {
		if old, ok := st.agg.Max[k]; !ok || v > old {
			st.agg.Max[k] = v
		}
	}
	for k, v := range r.Min {
		if old, ok := st.agg.Min[k]; !ok || v < old {
			st.agg.Min[k] = v
		}
	}
	for _, t := range r.Tags {
		st.agg.Tags[t]++
	}
	if r.Inconclusive != "" {
		st.inconcl = append(st.inconcl, fmt.Sprintf("%s idx=%d: %s", w.Name, idx, r.Inconclusive))
	}
	if len(r.Violations) > 0 {
		st.records = append(st.records, caseRecord{wl: w.Name, variant: w.Variant, idx: idx, desc: desc, res: r})
	}
}

func tailOf(path string, n int) string {
	b, err := os.ReadFile(path)
	if err != nil {
		return ""
	}
	if len(b) > n {
		// keep the head of a panic / sanitizer report rather than the tail of a goroutine dump
		for _, marker := range []string{"panic: ", "fatal error: ", "==ERROR: AddressSanitizer", "WARNING: DATA RACE", "SIGSEGV"} {
			if i := strings.Index(string(b), marker); i >= 0 {
				e := i + n
				if e > len(b) {
					e = len(b)
				}
				return string(b[i:e])
			}
		}
		b = b[len(b)-n:]
	}
	return string(b)
}

func crashSummary(tail string) string {
	if len(tail) > 3000 {
		tail = tail[:3000]
	}
	return "worker process died while executing this case:\n" + tail
}

func lastLines(s string, n int) string {
	ls := strings.Split(strings.TrimSpace(s), "\n")
	if len(ls) > n {
		ls = ls[len(ls)-n:]
	}
	return strings.Join(ls, " | ")
}

var goroutineHdr = regexp.MustCompile(`(?m)^goroutine \d+ \[([^\]]+)\]:`)

func isDeadlockDump(dump string) bool {
	ms := goroutineHdr.FindAllStringSubmatch(dump, -1)
	if len(ms) == 0 {
		return false
	}
	for _, m := range ms {
		s := m[1]
		if !(strings.HasPrefix(s, "chan ") || strings.HasPrefix(s, "select") || strings.HasPrefix(s, "semacquire") || strings.HasPrefix(s, "sync.")) {
			return false
		}
	}
	return true
}

// ---------------------------------------------------------------------------
// evidence

var notObservedGlobal []string

func writeEvidence(p *core.Prop, tier string, seed uint64, st *runState, wall float64, unlisted, totalViol int, known map[string]int, harnessErr string) {
	cov := map[string]interface{}{
		"evaluations":         st.evals,
		"distinct_nontrivial": len(st.classes),
		"rule":                p.Rule,
		"inconclusive":        len(st.inconcl),
		"worker_crashes":      st.crashes,
		"worker_processes":    st.workerRun,
		"known_findings_hit":  known,
		"violations_total":    totalViol,
	}
	samples := []interface{}{}
	for _, s := range st.samples {
		var v interface{}
		if json.Unmarshal(s, &v) == nil && v != nil {
			samples = append(samples, v)
		}
	}
	if len(samples) == 0 {
		samples = append(samples, "no sample recorded")
	}
	cov["samples"] = samples
	if len(st.agg.Count) > 0 {
		cov["observed_counts"] = st.agg.Count
	}
	if len(st.agg.Max) > 0 {
		cov["observed_max"] = st.agg.Max
	}
	if len(st.agg.Min) > 0 {
		cov["observed_min"] = st.agg.Min
	}
	if len(st.agg.Tags) > 0 {
		// tags of the form "interleaving:<hash>" identify distinct observed interleavings: report their number
		tags := map[string]int{}
		distinct := 0
		for k, v := range st.agg.Tags {
			if strings.HasPrefix(k, "interleaving:") {
				distinct++
			} else {
				tags[k] = v
			}
		}
		if distinct > 0 {
			cov["distinct_interleavings_observed"] = distinct
		}
		cov["observed_tags"] = tags
	}
	if p.Exhaustive != nil && p.Exhaustive(tier) {
		cov["exhaustive"] = true
	}
	if p.Extra != nil {
		for k, v := range p.Extra(&st.agg) {
			cov[k] = v
		}
	}
	if len(notObservedGlobal) > 0 {
		cov["not_observed"] = notObservedGlobal
	}
	if harnessErr != "" {
		cov["harness_error"] = harnessErr
	}
	level := p.Level
	if level == "" {
		level = "exploration"
	}
	ev := map[string]interface{}{
		"property_id": p.ID,
		"tier":        tier,
		"seed":        seed,
		"level":       level,
		"coverage":    cov,
		"assumptions": p.Assumptions,
		"wall_s":      wall,
		"violations":  unlisted,
	}
	if p.Assumptions == nil {
		ev["assumptions"] = []string{}
	}
	b, _ := json.MarshalIndent(ev, "", " ")
	os.MkdirAll(filepath.Join(verifDir, "evidence"), 0755)
	os.WriteFile(filepath.Join(verifDir, "evidence", p.ID+".json"), b, 0644)
}

// ---------------------------------------------------------------------------
// replay

func replayMain(args []string) int {
	fs := flag.NewFlagSet("replay", flag.ExitOnError)
	file := fs.String("file", "", "")
	fs.Parse(args)
	b, err := os.ReadFile(*file)
	if err != nil {
		fmt.Println("HARNESS-ERROR:", err)
		return 2
	}
	var rep struct {
		Property string          `json:"property"`
		Workload string          `json:"workload"`
		Variant  string          `json:"variant"`
		Seed     uint64          `json:"seed"`
		Tier     string          `json:"tier"`
		Idx      int             `json:"idx"`
		Case     json.RawMessage `json:"case"`
	}
	if err := json.Unmarshal(b, &rep); err != nil {
		fmt.Println("HARNESS-ERROR:", err)
		return 2
	}
	p := core.Registry[rep.Property]
	if p == nil {
		fmt.Println("HARNESS-ERROR: unknown property", rep.Property)
		return 2
	}
	var w *core.Workload
	for i := range p.Workloads {
		if p.Workloads[i].Name == rep.Workload {
			w = &p.Workloads[i]
		}
	}
	if w == nil {
		fmt.Println("HARNESS-ERROR: unknown workload", rep.Workload)
		return 2
	}
	cmd := exec.Command(binFor(rep.Variant), "worker", "-prop", rep.Property, "-wl", rep.Workload,
		"-seed", fmt.Sprint(rep.Seed), "-tier", rep.Tier, "-variant", rep.Variant,
		"-from", fmt.Sprint(rep.Idx), "-to", fmt.Sprint(rep.Idx+1))
	workDir := filepath.Join(verifDir, "work", rep.Property)
	os.MkdirAll(workDir, 0755)
	cmd.Env = append(os.Environ(), w.Env...)
	cmd.Env = append(cmd.Env, "VERIF_WORKDIR="+workDir, "VERIF_SLOT=99")
	var errBuf strings.Builder
	cmd.Stderr = &errBuf
	out, _ := cmd.Output()
	ended := false
	violated := false
	for _, ln := range strings.Split(string(out), "\n") {
		var l core.Line
		if json.Unmarshal([]byte(ln), &l) != nil {
			continue
		}
		if l.T == "begin" {
			var a, b2 interface{}
			json.Unmarshal(l.Case, &a)
			json.Unmarshal(rep.Case, &b2)
			ja, _ := json.Marshal(a)
			jb, _ := json.Marshal(b2)
			if string(ja) != string(jb) {
				fmt.Println("note: regenerated case differs from the recorded one (generator changed since the replay file was written)")
			}
			fmt.Printf("case: %s\n", ja)
		}
		if l.T == "end" {
			ended = true
			if l.Res != nil {
				for _, v := range l.Res.Violations {
					violated = true
					fmt.Printf("VIOLATION property=%s replay=%s\n  kind=%s model=%s: %s\n", rep.Property, *file, v.Kind, v.Model, v.Detail)
				}
				if l.Res.Inconclusive != "" {
					fmt.Println("inconclusive:", l.Res.Inconclusive)
				}
			}
		}
	}
	if !ended {
		fmt.Printf("VIOLATION property=%s replay=%s\n  kind=crash: worker died:\n%s\n", rep.Property, *file, tailStr(errBuf.String(), 3000))
		return 1
	}
	if violated {
		return 1
	}
	fmt.Println("replay: property held on this case")
	return 0
}

func tailStr(s string, n int) string {
	if len(s) > n {
		return s[:n]
	}
	return s
}
