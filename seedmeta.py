#!/usr/bin/env python3
"""seedmeta.py <dir> <property> <needs...> -- writes meta.json for a seeded defect (result lines are appended by hand/after runs)."""
import json,sys,os
d,prop,needs,caught,ran=sys.argv[1:6]
json.dump({"breaks_property":prop,"needs_to_manifest":needs,"detected_by":caught.split(","),"what_was_run":ran,
           "confirmed":"patch applies to /repo HEAD; demo fails with the patch and passes without it (checked in a scratch worktree); 42 baseline tests pass with the patch"},
          open(os.path.join(d,"meta.json"),"w"),indent=1)
