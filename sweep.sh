#!/bin/bash
# sweep.sh <tier> <seed...> : run every registered check (or $ONLY) at several seeds without touching evidence; report anything not silent.
# Do not modify /repo while this runs (the checks rebuild from it).
cd /verif
tier=$1; shift
./build.sh plain >/dev/null || exit 2
for seed in "$@"; do
  for p in ${ONLY:-$(bin/vcheck list)}; do
    case " ${SKIP:-} " in *" $p "*) continue;; esac
    out=$(VERIF_SEED=$seed VERIF_NO_EVIDENCE=1 ./run.sh $p $tier 2>&1); rc=$?
    if [ $rc -ne 0 ] || echo "$out" | grep -q "^VIOLATION\|HARNESS-ERROR\|inconclusive: "; then
      echo "### seed=$seed $p exit=$rc"; echo "$out" | grep -v "^    " | tail -8
    fi
  done
  echo "seed $seed done"
done
