#!/bin/bash
# Build the framework offline and prime the Go build cache.
set -u
cd /verif
export GOFLAGS=-mod=mod GOPROXY=off GOSUMDB=off GOTOOLCHAIN=local CGO_ENABLED=1
./build.sh plain || exit 1
for v in $(for p in $(bin/vcheck list); do bin/vcheck variants -prop $p; bin/vcheck needs -prop $p 2>/dev/null; done | sort -u | grep -v '^plain$'); do
  ./build.sh $v || exit 1
done
echo setup done
